#!/venv/bin/python
"""Development helper: run only the work items of a check whose JSON contains a substring.

usage: [TLV_REPO=<tree>] tools/items.py Cxx <substring> [--tier quick|thorough] [--max N]
Prints the failure signatures (and one example each).  Not used by any registered command.
"""
import collections
import importlib
import json
import os
import sys

sys.path.insert(0, os.path.dirname(os.path.dirname(os.path.abspath(__file__))))
os.environ.setdefault("PYTHONHASHSEED", "0")
from mc.core import env  # noqa: E402

env.bind_repo()
import logging  # noqa: E402
logging.getLogger("src").setLevel(logging.CRITICAL + 1)
os.environ["HOME"] = str(env.scratch_base())
prop, sub = sys.argv[1], sys.argv[2]
tier = sys.argv[sys.argv.index("--tier") + 1] if "--tier" in sys.argv else "quick"
mx = int(sys.argv[sys.argv.index("--max") + 1]) if "--max" in sys.argv else 10**9
mod = importlib.import_module(f"mc.checks.{prop.lower()}")
items = [i for i in mod.items(tier, 0) if sub in json.dumps(i, default=str)][:mx]
print(f"{len(items)} items match")
sigs = collections.Counter()
ex = {}
cases = nt = 0
for it in items:
    acc = mod.run_item(it)
    cases += acc.cases
    nt += len(acc.nontrivial) if hasattr(acc, "nontrivial") else 0
    for f in acc.failures:
        k = json.dumps(f["signature"], sort_keys=True)
        sigs[k] += 1
        ex.setdefault(k, f)
print(f"cases={cases} nontrivial={nt} failures={sum(sigs.values())}")
for k, n in sigs.most_common():
    f = ex[k]
    print(n, k)
    print("    case:", json.dumps(f["case"], default=str)[:300])
    print("    exp:", json.dumps(f.get("expected"), default=str)[:200], "obs:", json.dumps(f.get("observed"), default=str)[:200])
