#!/opt/veriftools/pyvenv/bin/python
"""Validate MANIFEST.json and every evidence file against the schemas."""
import json, sys, glob
import jsonschema
ok = True
def v(doc, schema, name):
    global ok
    try:
        jsonschema.validate(json.load(open(doc)), json.load(open(schema)))
        print("ok  ", name)
    except Exception as e:
        ok = False
        print("FAIL", name, str(e)[:300])
v("/verif/MANIFEST.json", "/root/.vp/MANIFEST.schema.json", "MANIFEST.json")
for f in sorted(glob.glob("/verif/evidence/*.json")):
    v(f, "/root/.vp/EVIDENCE.schema.json", f)
sys.exit(0 if ok else 1)
