#!/usr/bin/env python3
"""Regenerate the seeded-change table of DESIGN.md (between the SEED-TABLE markers) from
seeded/*/meta.json.  usage: tools/seed_table.py"""
import json
import re
from pathlib import Path

V = Path(__file__).resolve().parent.parent
rows = []
for d in sorted((V / "seeded").iterdir(), key=lambda p: (p.name.split("-")[0], p.name)):
    m = json.loads((d / "meta.json").read_text())
    det = m.get("detection") or {}
    caught = [f"{c} ({v['violations']} signature{'s' if v['violations'] != 1 else ''})" for c, v in det.items() if v.get("detected")]
    missed = [c for c, v in det.items() if not v.get("detected")]
    touched = ", ".join(Path(f).name for f in (m.get("files_touched") or [])[:2])
    summ = re.sub(r"\s+", " ", (m.get("summary") or "")).strip()
    summ = summ[:150] + ("…" if len(summ) > 150 else "")
    status = "; ".join(caught) if caught else ("**not caught** by " + ", ".join(missed) if missed else "not run")
    if caught and missed:
        status += " (its own property's check " + ", ".join(missed) + " does not reach it, see last column)"
    if m.get("not_judged"):
        status = "not judged: " + m["not_judged"][:160] + "…"
    if m.get("status_on_current_tree"):
        status = (("; ".join(caught) + " before; ") if caught else "") + "neutralised by a later repair of the underlying defect (see meta.json): the patched tree no longer breaks the property and the check is, correctly, silent"
    note = m.get("strengthened") or ""
    rows.append(f"| {d.name} | {touched} | {summ} | {status} | {note} |")
table = "| seed | touches | change | caught by (quick tier) | check strengthened with |\n|---|---|---|---|---|\n" + "\n".join(rows)
p = V / "DESIGN.md"
s = p.read_text()
a, b = "<!-- SEED-TABLE-BEGIN -->", "<!-- SEED-TABLE-END -->"
if a in s:
    s = s[: s.index(a) + len(a)] + "\n" + table + "\n" + s[s.index(b):]
    p.write_text(s)
    print("table updated:", len(rows), "rows")
else:
    print(table)
