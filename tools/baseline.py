#!/venv/bin/python
"""Run the repository's pinned test suite (guard OFF) and compare with /root/.vp/BASELINE.json.

usage: tools/baseline.py [repo_dir]     exit 0 iff every stable-pass test of the baseline passes.
"""
import json
import os
import subprocess
import sys
import tempfile
import xml.etree.ElementTree as ET

repo = sys.argv[1] if len(sys.argv) > 1 else "/repo"
base = json.load(open("/root/.vp/BASELINE.json"))
stable = base.get("stable_pass")
out = tempfile.mktemp(suffix=".xml", prefix="tlv_suite_")
env = {k: v for k, v in os.environ.items() if not k.startswith("THAILINT_VERIF")}
env["PYTHONPATH"] = repo
p = subprocess.run(
    ["/venv/bin/python", "-m", "pytest", "-ra", "-q", "-p", "no:cacheprovider", "--timeout=900",
     "--continue-on-collection-errors", f"--junitxml={out}"],
    cwd=repo, env=env, capture_output=True, text=True,
)
passed, failed = set(), set()
for tc in ET.parse(out).getroot().iter("testcase"):
    tid = (tc.get("classname") or "") + "::" + (tc.get("name") or "")
    if tc.find("failure") is not None or tc.find("error") is not None:
        failed.add(tid)
    elif tc.find("skipped") is None:
        passed.add(tid)
os.unlink(out)
passed -= failed
print(f"passed={len(passed)} failed={len(failed)}")
if isinstance(stable, list):
    missing = sorted(set(stable) - passed)
    print(f"baseline stable_pass={len(stable)} missing={len(missing)}")
    for m in missing[:40]:
        print("  MISSING", m)
    sys.exit(1 if missing else 0)
print("failed:", sorted(failed)[:20])
sys.exit(0 if len(passed) >= int(stable) else 1)
