#!/venv/bin/python
"""Regenerate /verif/MANIFEST.json from the table below (keeps it schema-valid at all times)."""
import json
import subprocess
import sys
from pathlib import Path

VERIF = Path(__file__).resolve().parents[1]

# property -> (category, technique, level text, level note, design ref)
CHECKS = {
    "C01": (
        "model_checking",
        "exhaustive small-scope enumeration of control-structure forests x languages x limits on the real orchestrator, with wrap / cross-language / carrier edges",
        "Every control-structure forest up to the stated node bound is rendered into every supported language and linted by the real implementation at every limit 1..depth+2; reported depth, flip point, +1-per-wrap and cross-language agreement are checked on every case. Exhaustive within the bound, no sampling.",
        "Trusted: the renderers (skeleton -> source) and the reference depth function; depth is read from the violation message. Shapes whose depth the documentation leaves ambiguous (Python match/case, TS else-if chains, nested function definitions) are outside the alphabet.",
        "DESIGN.md section 3 / C01",
    ),
    "C14": (
        "model_checking",
        "exhaustive enumeration of small directory trees x targets x ignore-pattern forms; one real CLI run each; set-equality against a reference model plus relational edges between runs",
        "All directory trees up to the stated entry bound over an alphabet containing every always-excluded directory name and compiled extension, x every target (root recursive/non-recursive, each sub-directory, each file named explicitly) x every documented ignore-pattern form x carrier, each executed through the real `thailint file-placement` command with a deny-everything rule so that reported files = linted files; compared in both directions with the reference model.",
        "Trusted: the tree generator, the gitignore-style reference semantics for the documented pattern forms. Pattern/position combinations the documentation leaves open are not judged. cwd is the project root (path spelling is C09).",
        "DESIGN.md section 3 / C14",
    ),
    "C18": (
        "model_checking",
        "exhaustive enumeration of allow/deny rule sets over a small prefix/regex alphabet x all paths of a fixed tree; real CLI per rule set; per-file comparison with a reference model; carrier/spelling edges; invalid regex in every position",
        "Every rule set over directory prefixes {src, src/api, tests} x allow/deny subsets x global_deny/global_patterns variants is run through the real `thailint file-placement` command against every path of a fixed tree and compared per file with a reference model written from the statement; the same rule set through every carrier (--config yaml/json, --rules, auto-discovered file, absolute target) and entry spelling must give the same verdicts; an invalid regex in every position must exit 2.",
        "Trusted: the reference model. Global rules hitting a file that is covered by (and satisfies) a directory rule are outside the alphabet because the documentation is contradictory about them (DESIGN C18). Patterns and paths are lower case.",
        "DESIGN.md section 3 / C18",
    ),
    "C20": (
        "model_checking",
        "explicit-state breadth-first search over config-file states; each transition is a real CLI command (init-config / config set / get / reset); exact-bytes state de-duplication; invariants on every transition",
        "State = bytes of the configuration file. From every initial state (absent, each preset's generated file, every hand-written YAML shape: section subsets x key spelling x block/flow/top-level-flow x comments x extra keys x final newline x document marker) the real commands are applied; BFS to the stated depth over the complete command menu from representative states and fixed interleavings from every shape. Invariants: merge result is valid YAML, every pre-existing setting loads unchanged through the linters' loader, idempotence, generated files accepted by every linter command, rejected `config set` leaves the bytes unchanged, accepted values are returned by `config get` and survive YAML/JSON round trips.",
        "Trusted: yaml.safe_load as the judge of validity; the linters' own parse_config_file as the definition of `in effect`; the echoed value of `config set` as the accepted value. Depth and value menu are bounded as stated in the evidence.",
        "DESIGN.md section 3 / C20",
    ),
    "C06": (
        "model_checking",
        "exhaustive product of commands x formats x project menu (incl. hostile names/identifiers) and commands x usage-error classes on the real CLI; cross-rendering multiset agreement and structural SARIF validation",
        "Every linter command is run in all three formats on every project of a menu that yields zero, one and many violations (incl. non-ASCII / quote / newline / undecodable file names and identifiers) and with every class of usage error; exit code vs count, JSON total, SARIF structure / 1-based positions / declared ruleIds, and agreement of the three renderings are checked on every case. The product is finite and taken in full.",
        "Trusted: hand-written structural schema for the SARIF fragment (official schema unavailable offline); text rendering checked structurally. Hostile names also through a fresh process (real stdout encoding).",
        "DESIGN.md section 3 / C06",
    ),
    "C07": (
        "model_checking",
        "stateless schedule enumeration of the real lint_files_parallel under a harness-owned executor: all arrangements of files over worker processes (forked children) x all completion orders, compared with the sequential run",
        "The real Orchestrator.lint_files_parallel / _collect_parallel_results / _finalize_rules run under a virtual pool that replaces ProcessPoolExecutor/as_completed: for w<=3, n in {2w-1,2w,2w+1}<=6 every arrangement of the n files into <=w ordered worker blocks is executed in forked children and every completion order (n!) is replayed on the stored future results; larger w/n with canonical arrangements and bounded deviations; every CLI command with --parallel; conformance runs against the unpatched real pool in a fresh process. Oracle: multiset over all violation fields and exit code equal to a fresh sequential run.",
        "Trusted: the virtual pool (fork per worker block, pickled results) as a faithful stand-in for the process pool; worker side and parent side are explored as a product of sets (no shared mutable state between processes). Real OS scheduling is only sampled by the conformance pass.",
        "DESIGN.md section 3 / C07",
    ),
    "C08": (
        "model_checking",
        "explicit enumeration of all event histories (lint/edit/delete/add) up to a depth on one long-lived Linter with a differential oracle (fresh Linter on the same disk state); all file-order permutations, discovery orders, hash seeds; before/after snapshots for side effects",
        "Part 1: every history up to the depth bound over 9 events is replayed on a single long-lived Linter and its final lint result compared with a fresh Linter on the same disk state. Part 2: all permutations of the file list through the API and the CLI, all directory discovery orders (os.walk permuted), PYTHONHASHSEED values through fresh processes for every command. Part 3: snapshots of project tree, TMPDIR and HOME around every command in sequential and parallel mode and both DRY storage modes.",
        "Trusted: a fresh Linter after resetting the ignore-parser singleton as the reference. Configuration files are not changed during a history. Hash seeds are bounded as stated.",
        "DESIGN.md section 3 / C08",
    ),
    "C05": (
        "model_checking",
        "full matrix enumeration linter x option x value x key spelling x carrier on the real CLI; equivalence, monotonicity, precedence and error-exit oracles; option facts transcribed from the documentation",
        "For every linter section of the documentation-derived catalog the real CLI is run on the linter's documented violating examples under: enabled:false in every (spelling x carrier) combination; every integer threshold swept over 10 values (effect where the documentation's own numbers make the example sensitive, monotone in the documented direction, identical across carriers/spellings); top-level ignore list in every carrier; all ordered carrier pairs for precedence; CLI threshold options against config values and per-language overrides; documented-invalid values and unparsable files in every carrier. The matrix is finite and taken in full.",
        "Trusted: the catalog (hand/agent-transcribed from docs, see mc/catalog/SPEC.md). A linter whose documented example does not fire is skipped here and reported by C19. Group-level --config is not treated as a carrier.",
        "DESIGN.md section 3 / C05",
    ),
    "C15": (
        "model_checking",
        "full matrix: commands x project x settings of all foreign config sections; documented examples x extension spellings x foreign/unsupported extensions x shebang variants; real CLI",
        "Every command is run on a project holding every documented violating example of every linter: reported rule ids must belong to the command, and the findings must be identical under every setting (absent, disabled, strictest, lenient, unknown keys; each foreign section alone) of all other linters' sections. Every documented example is re-run under upper/mixed-case extensions (same findings), under every foreign-language and unsupported extension (single-language linters and source-analysis rules must be silent), and extensionless with and without a python shebang.",
        "Trusted: the command -> rule-id-prefix table and the language lists from the docs. Foreign settings use valid values only (invalid values are C05's subject).",
        "DESIGN.md section 3 / C15",
    ),
    "C04": (
        "model_checking",
        "full matrix linter x language x directive form x rule-name spelling x placement on the real CLI with an edge oracle (before/after inserting the directive, line-shift aware)",
        "For every linter and language of the catalog the documented violating example (plus a probe function carrying other linters' violations) is linted before and after inserting each directive form (same-line, ignore-next-line, ignore-start/end, ignore-file in line 1 and in line 11+, .thailintignore, top-level ignore, linter-level ignore) in every rule-name spelling (full id, prefix, prefix.*, deprecated alias, upper case, bare) at every placement (on each violation, on a violation-free line, naming another linter). after must equal shift(before - scope) and the other linter's findings must be unchanged. The matrix is finite and taken in full.",
        "Trusted: the scope model from the documentation; comment style by language. lazy-ignores exempt; file-header / file-placement / dry restricted to the forms whose scope is defined for them (see module docstring).",
        "DESIGN.md section 3 / C04",
    ),
    "C09": (
        "model_checking",
        "relocation/respelling edges: full product of parent-directory names x depth x working directories x target spellings x commands (+ library API) against a baseline run",
        "One multi-language project (documented violating examples, tests/ sub-directory, repository and linter-level ignore patterns) is placed under every parent name of the alphabet (every built-in excluded directory name and every test-marker substring) one and two levels up, linted from four working directories with every spelling of directory and file targets by every command and by Linter.lint; every run must equal the baseline up to path spelling.",
        "Trusted: path normalisation (reported file made project-relative; quoted paths in messages likewise). Project root is marked by .git inside the project.",
        "DESIGN.md section 3 / C09",
    ),
    "C02": (
        'model_checking',
        'exhaustive product placement-context x literal-spelling x configuration per language on the real CLI against a reference model; allow-add/remove edges',
        'Every (placement context x literal spelling) snippet in Python, TypeScript, JavaScript and Rust (contexts incl. every documented exempt position) is linted under every allowed_numbers configuration of the menu; the reported multiset (line, value parsed back from the message) is compared with the model; adding/removing a value from allowed_numbers must change exactly the violations of that value; non-literals, two literals on one line, range/enumerate around max_small_integer and test/constants file names are covered.',
        "Trusted: the snippet generators and the model. allowed_numbers is always explicit (the built-in default's content is not part of the statement). Negative literals are outside the alphabet.",
        'DESIGN.md section 3 / C02',
    ),
    "C03": (
        'model_checking',
        'exhaustive enumeration of planted-duplicate projects (k, run length, multiplicity, placement, decoration, min_occurrences) with soundness / mutuality / completeness / count / silence oracles backed by an independent normaliser',
        'Projects are generated from a pool of ordinary statements with planted duplicate runs; every combination within the bound is linted by the real `dry` command; every named location is compared after independent comment/whitespace normalisation, every planted occurrence must be covered, the occurrence count must match, and projects without a qualifying run must be silent.',
        "Trusted: the generator's construction record and the independent normaliser (Python tokenize / string-aware scanner for TS/JS). `Covered` is taken in its least demanding form.",
        'DESIGN.md section 3 / C03',
    ),
    "C10": (
        'model_checking',
        'all subsets of files / directory / mixed targets x entry points (library, every CLI command) with union and library-vs-CLI oracles',
        'For generated multi-language trees every non-empty subset of the files, every single file, every sub-directory and mixed file+directory lists are linted through Orchestrator/Linter and through every CLI command; per-file rules must satisfy lint(dir) = U lint(f) and lint(list) = U over the list; Linter.lint and the CLI must agree for files and directories incl. cross-file rules.',
        'Trusted: the per-file / cross-file classification from the docs (dry, stringly-typed are cross-file). Paths quoted in messages are normalised.',
        'DESIGN.md section 3 / C10',
    ),
    "C11": (
        'fault_enumeration',
        'complete single-fault neighbourhoods: all byte strings up to a length, every single mutation at every position of every seed, size faults; timeout + swallowed-failure tap + sibling-invariance oracle',
        'Every byte string up to the bound in six file types, the complete 1-mutation neighbourhood (truncation, token deletion/duplication, bracket flips, poison sequences at each line start, line-ending/encoding conversions) of one healthy seed per linter and language, size faults (deep nesting, huge lines/expressions) through fresh processes, unknown and empty files; each linted with two healthy siblings. No hang, no escaping exception, no swallowed rule failure, siblings unchanged.',
        "Trusted: swallowed failures are visible through the orchestrator's logger / stderr. Hangs are detected by timeout only.",
        'DESIGN.md section 3 / C11',
    ),
    "C12": (
        'model_checking',
        'generic location bounds on every violation of every documented example x layout values; construct-line ground truth from generated programs x lines-above x scopes x decorated/multi-line headers',
        'Part A: every violation reported for every catalog example under seven layouts must lie inside the file (line, column) and carry its first quoted name on the reported line. Part B: programs whose construct line is known by construction (function/class/struct headers with decorators, attributes, multi-line signatures; literals in multi-line calls; print/unwrap/clone/blocking calls; duplicate blocks) x 0/1/3 lines above x scopes.',
        "Trusted: the generators' construct-line bookkeeping; only the first quoted token of a message is required on the line.",
        'DESIGN.md section 3 / C12',
    ),
    "C13": (
        'model_checking',
        'edge oracle over the complete position set of every edit kind on every documented example (before/after with line-shift map)',
        'For every documented violating example of every linter and language, a blank line and a comment line are inserted at every admissible boundary, trailing whitespace is added to every line, the file is re-indented (2, 8, tabs), converted to CRLF, given a BOM, extended by unrelated code, and local identifiers are renamed for name-insensitive rules; the run after each edit must equal the shifted run before it.',
        'Trusted: the admissible-position analysis (tokenize / string-and-comment scanner) and the header extent for header-sensitive linters.',
        'DESIGN.md section 3 / C13',
    ),
    "C16": (
        'model_checking',
        'exhaustive product class-shape x threshold offsets x keyword settings x override blocks per language against a reference model of the documented counting rules',
        'Generated classes / struct+impl groups with every combination of public, private, dunder, property and static members (within the bound) and three paddings are linted with max_methods and max_loc at -1/0/+1 around the true counts, keyword checking on/off, two impl blocks, three classes per file, nested classes and per-language override blocks of every language; verdict, listed criteria, counts in the message, one violation per class and the header line are compared with the model.',
        'Trusted: the documented counting rules as implemented in the model (public = no leading underscore; LOC = non-blank non-comment lines). Docstrings, TS constructors/getters are outside the alphabet.',
        'DESIGN.md section 3 / C16',
    ),
    "C17": (
        'model_checking',
        'exhaustive product container (sync/async x attribute sets x module nesting x impl) x planted statement x switch settings with expectations by construction',
        'Rust files generated from an item grammar: every container (12 attribute/async variants x 6 wrappers incl. #[cfg(test)] modules nested two deep) x every planted statement (unwrap/expect variants, clone in each loop kind / chain / let with and without later use / closures, std::fs / thread::sleep / std::net in short and long form, tokio equivalents, spawn_blocking / block_in_place wrappers) x every setting of allow_in_tests, allow_expect and detect_*; the exact multiset of (rule id, line) is compared.',
        "Trusted: the generator's line bookkeeping and orthogonality of the planted statements. Attribute spellings whose test-ness the statement does not define are signed separately (thorough).",
        'DESIGN.md section 3 / C17',
    ),
    "C19": (
        'model_checking',
        'every strongly-labelled documented example x every admissible embedding, run through the real CLI; catalog bound to the docs by verbatim snippet',
        'Every example of docs/*-linter.md that the text labels violating or acceptable/refactored (about 400, transcribed verbatim with file and line) is linted as-is, with filler code before/after and, for the pattern linters, inside a function, a method, an if block, two scopes deep and two/three times with renamed copies; violating examples must be reported by their linter inside every occurrence, acceptable ones must not be reported.',
        'Trusted: the transcription and labelling of the catalog (agent-built from the docs, weak/hedged labels filtered, ten self-contradictory examples excluded with reasons in mc/checks/c19.py).',
        'DESIGN.md section 3 / C19',
    ),
}

NOT_APPLICABLE: dict[str, str] = {}


# dimensions added to a check's alphabet after the seeded-change rounds (DESIGN.md section 9)
ADDED = {
    "C01": "nested functions (declaration, callback argument, const arrow, returned function, nested def): uniform counting with a constant step",
    "C02": "one run over four languages with a different allowed list each (all 24 orders); upper-case exponents, hex with e, BigInt; per-language allowed_numbers / max_small_integer sections (equivalence with the same value at top level, down to the empty list); private / dunder / digit constant names; upper-case radix prefixes (0XE5, 0O17, 0B110)",
    "C03": "whole-file occurrences (the file's entire code is the run) and self-overlapping periodic runs",
    "C04": "two directives stacked on one violation; the repository ignore list handed over with --config; line-scoped directives on finalize-time duplicate-code violations for four ways of naming the target; deprecated alias written with capitals",
    "C05": "the global form `thailint --config FILE <command>` as a carrier; documented-invalid values on the command line; per-language override blocks in runs over files of several languages, every order, against the file alone",
    "C06": "configuration documents that are a list or a scalar; surrogate-escaped file names in all three formats",
    "C07": "explicit --config files (empty, same, looser) against a strict project configuration; several directory arguments; constants duplicated across more files than a message lists; in the real-pool run an extension-less python script inside a cross-file duplicate, a 5000-digit integer file and a 1500-deep expression (limits the CLI entry point lifts must reach the workers)",
    "C08": "a file-level suppression added by the history's edit; 40 modules linted repeatedly by one Linter; non-transitive fuzzy constants and js/ts thresholds in the order item; all ordered pairs of a probe corpus against fresh-interpreter references (module-level state); rotations / reversal / adjacent swaps of seven files that share more partner locations than a message lists; the same project under every hash seed",
    "C09": "nested-prefix repository patterns, an every-linter-ignored shelf/ copy and parent, grandparent working directory, symlink and <root>/tests/.. spellings, placement rules and directive-suppressed duplicates in the relocated project; linter-level ignore patterns with a directory prefix, seen from working directories inside that prefix; --parallel variants of the cross-file commands on the relocated project (absolute and relative spelling, three working directories)",
    "C10": "a probe tree (extensionless scripts, two findings on one line, name-clash pairs) below a parent called build, with fresh-interpreter single-file references and `.` vs absolute directory spelling; the same settings carried by .thailint.yaml, .thailint.json and pyproject.toml in turn, command line against library",
    "C11": "cases run in a child process that is killed on a hang; special literals (5000-digit integers, lone surrogates, unterminated comments); files full of suppression directives in the mutation neighbourhood; every byte after script / BOM prefixes; the faulty file linted before and between the healthy ones",
    "C12": "wrapped statements (call on a continuation line), JSDoc / docstring above duplicated blocks",
    "C13": "supplementary programs that sit exactly on a limit (elif chain at max depth, class at max_loc, open ignore block reaching EOF); whitespace-only lines",
    "C14": "--parallel variants of the root runs; the configuration handed over with --config; several targets in one run (directory inside an excluded directory plus files); directory patterns of several segments below `**/`",
    "C15": "non-python shebang followed by a line mentioning python; several extensionless files in one run in three orders; upper/mixed-case extensions also for the linters whose verdict depends on the path (Rust linters, magic-numbers, improper-logging, file-header, lazy-ignores, method-property)",
    "C16": "override blocks that set one threshold only; one run over four languages in all 24 orders; helper functions nested in method bodies",
    "C17": "closures nested inside the blocking-wrapper closure; blocking calls in a non-async helper fn declared inside the async fn",
    "C18": "trailing-slash, key-order and empty-allow variants of every rule set",
    "C19": "embeddings: same names again inside a function, nested in its own loop, beside unrelated modules that reuse the example's variable names",
    "C20": "hyphen spellings of the keys; values with outer whitespace, NEL, falsy spellings; sections emptied by hand, sections around the generated banner, duplicate-key invariant; merges into empty and comment-only documents; config set / reset against every spelling of the file name: a failing command leaves the file byte-for-byte unchanged",
}


def main() -> int:
    props = [json.loads(l)["id"] for l in (VERIF / "properties.jsonl").read_text().splitlines() if l.strip()]
    checks = []
    for pid in props:
        if pid not in CHECKS:
            continue
        cat, tech, text, note, ref = CHECKS[pid]
        checks.append(
            {
                "property_id": pid,
                "quick_cmd": f"./check {pid} --tier quick",
                "thorough_cmd": f"./check {pid} --tier thorough",
                "evidence_file": f"/verif/evidence/{pid}.json",
                "replay_cmd_template": f"./check {pid} --replay {{path}}",
                "engine": "mc-explorer",
                "level_claimed": {"category": cat, "text": text + ((" Added after the seeded-change rounds: " + ADDED[pid] + ".") if pid in ADDED else ""), "design_ref": ref},
                "level_note": note,
                "technique": tech,
            }
        )
    na = []
    for pid in props:
        if pid not in CHECKS:
            na.append({"property_id": pid, "reason": NOT_APPLICABLE.get(pid, "check not built yet in this session (planned, see DESIGN.md section 3); not claimed until its explorer exists")})
    try:
        commits = subprocess.run(["git", "-C", "/repo", "log", "--format=%H %s", "--grep=^verif-hook:"], capture_output=True, text=True).stdout.split("\n")
        hook_commits = [c.split()[0] for c in commits if c.strip()]
    except OSError:
        hook_commits = []
    man = {
        "version": 1,
        "setup_cmd": "true",
        "hooks": {
            "guard": "THAILINT_VERIF",
            "enable": "environment variable THAILINT_VERIF=1 (exported by ./check); no build step, the Python sources are imported from /repo's working tree",
            "baseline_off_cmd": "env -u THAILINT_VERIF /venv/bin/python /verif/tools/baseline.py /repo",
            "source_commits": hook_commits,
            "add_only": True,
        },
        "engines": [
            {
                "name": "mc-explorer",
                "path": "/verif/mc",
                "serves_properties": [c["property_id"] for c in checks],
                "kind_free_text": "hand-written bounded-exhaustive explorer for Python: enumerates every case/edge/history/schedule of a stated finite space, executes the real thai-lint implementation on each (in-process API, in-process CLI, fresh-process CLI) and compares with a reference model or a differential oracle; shards over 16 worker processes; writes evidence and replay artefacts",
            }
        ],
        "checks": checks,
        "not_applicable": na,
        "notes": "Run with /venv/bin/python (the repo's interpreter). VERIF_SEED only permutes processing order and incidental names; the explored space is identical for every seed. Known findings: /verif/known_findings.jsonl.",
    }
    (VERIF / "MANIFEST.json").write_text(json.dumps(man, indent=1) + "\n")
    print(f"MANIFEST.json: {len(checks)} checks, {len(na)} not_applicable")
    return 0


if __name__ == "__main__":
    sys.exit(main())
