#!/venv/bin/python
"""Handle seeded property-breaking changes produced by independent sub-agents.

  tools/seed.py verify <Cxx> <k>    confirm in the agent's scratch worktree /tmp/seed_<Cxx>: demo passes on the clean
                                    tree, fails with the patch, and the pinned test suite still passes with the patch
  tools/seed.py keep <Cxx> <k> <id> copy patch/demo/meta into /verif/seeded/<id>/ (after verify)
  tools/seed.py detect <id> [check ...]   apply /verif/seeded/<id>/patch.diff to /repo, run the quick checks
                                    (default: the property it breaks), record the outcome in meta.json, undo
"""
import json
import os
import shutil
import subprocess
import sys
from pathlib import Path

VERIF = Path(__file__).resolve().parents[1]


def sh(cmd, **kw):
    return subprocess.run(cmd, shell=True, capture_output=True, text=True, **kw)


def run_demo(d: Path, tree: str):
    demo = d / "demo.py" if (d / "demo.py").exists() else d / "demo.sh"
    cmd = f"/venv/bin/python {demo}" if demo.suffix == ".py" else f"bash {demo}"
    env = {**os.environ, "TREE": tree, "PYTHONPATH": tree}
    env.pop("THAILINT_VERIF", None)
    r = subprocess.run(cmd, shell=True, capture_output=True, text=True, env=env, cwd="/tmp", timeout=600)
    return r.returncode, (r.stdout + r.stderr).strip().splitlines()[-3:]


def verify(prop, k):
    wt = f"/tmp/seed_{prop}"
    d = Path(f"/tmp/seed_{prop}_out/{k}")
    out = {"property": prop, "k": k}
    sh(f"git -C {wt} checkout -- .")
    rc0, t0 = run_demo(d, wt)
    out["demo_clean"] = {"exit": rc0, "tail": t0}
    a = sh(f"git -C {wt} apply {d}/patch.diff")
    if a.returncode:
        out["apply_error"] = a.stderr[-300:]
        print(json.dumps(out, indent=1))
        return 1
    rc1, t1 = run_demo(d, wt)
    out["demo_patched"] = {"exit": rc1, "tail": t1}
    s = sh(f"/venv/bin/python {VERIF}/tools/baseline.py {wt}")
    out["suite_with_patch"] = s.stdout.strip().splitlines()[-3:]
    out["suite_ok"] = s.returncode == 0
    missing = [ln.split("MISSING", 1)[1].strip() for ln in s.stdout.splitlines() if "MISSING" in ln]
    if not out["suite_ok"] and missing and all("test_performance" in m for m in missing):
        # wall-clock assertions fail when many suites run at once: repeat just those tests alone
        t = sh(f"cd {wt} && PYTHONPATH={wt} /venv/bin/python -m pytest -q -p no:cacheprovider --no-cov tests/integration/test_performance.py 2>&1 | tail -3")
        out["timing_tests_rerun_alone"] = t.stdout.strip().splitlines()[-1:]
        if " passed" in t.stdout and " failed" not in t.stdout:
            out["suite_ok"] = True
    sh(f"git -C {wt} checkout -- .")
    out["confirmed"] = rc0 == 0 and rc1 != 0 and out["suite_ok"]
    (d / "verify.json").write_text(json.dumps(out, indent=1))
    print(json.dumps(out, indent=1))
    return 0 if out["confirmed"] else 1


def keep(prop, k, sid):
    d = Path(f"/tmp/seed_{prop}_out/{k}")
    v = json.loads((d / "verify.json").read_text())
    assert v["confirmed"], "not confirmed"
    dst = VERIF / "seeded" / sid
    dst.mkdir(parents=True, exist_ok=True)
    for f in d.iterdir():
        if f.name in ("patch.diff", "demo.py", "demo.sh"):
            shutil.copy(f, dst / f.name)
    meta = json.loads((d / "meta.json").read_text()) if (d / "meta.json").exists() else {}
    meta.update({"id": sid, "property": prop, "confirmed_by_me": {
        "demo_on_clean_tree": v["demo_clean"], "demo_with_patch": v["demo_patched"],
        "suite_with_patch": v["suite_with_patch"],
        "how": f"tools/seed.py verify {prop} {k} (scratch worktree /tmp/seed_{prop}, removed afterwards)"}})
    (dst / "meta.json").write_text(json.dumps(meta, indent=1) + "\n")
    print("kept", dst)


def detect(sid, checks):
    dst = VERIF / "seeded" / sid
    meta = json.loads((dst / "meta.json").read_text())
    checks = checks or [meta["property"]]
    st = sh("git -C /repo status --porcelain --untracked-files=no").stdout.strip()
    if st:
        print("refusing: /repo has uncommitted changes\n" + st)
        return 2
    a = sh(f"git -C /repo apply {dst}/patch.diff")
    if a.returncode and (dst / "patch_rebased.diff").exists():
        a = sh(f"git -C /repo apply {dst}/patch_rebased.diff")
    if a.returncode:
        print("patch does not apply to current /repo (port it by hand into patch_rebased.diff):", a.stderr[-300:])
        sh("git -C /repo checkout -f HEAD -- . ; git -C /repo reset -q")
        return 2
    res = {}
    try:
        for c in checks:
            r = sh(f"./check {c} --tier quick", cwd=str(VERIF))
            lines = r.stdout.strip().splitlines()
            vio = [ln for ln in lines if ln.startswith("VIOLATION")]
            sig = [ln.strip()[:260] for ln in lines if ln.strip().startswith("signature=")]
            res[c] = {"exit": r.returncode, "violations": len(vio), "signatures": sig[:6], "summary": lines[0][:200] if lines else ""}
            print(c, "exit", r.returncode, "violations", len(vio))
            for s_ in sig[:4]:
                print("   ", s_)
    finally:
        sh("git -C /repo checkout -f HEAD -- . ; git -C /repo reset -q")
    head = sh("git -C /repo rev-parse --short HEAD").stdout.strip()
    meta.setdefault("detection", {})
    for c, v in res.items():
        meta["detection"][c] = {**v, "repo_head": head, "detected": v["exit"] == 1 and v["violations"] > 0}
    (dst / "meta.json").write_text(json.dumps(meta, indent=1) + "\n")
    return 0


def detect_wt(sid, wt, checks):
    """Same as detect, but in a scratch worktree of /repo (at /repo's HEAD) through TLV_REPO.

    /repo stays untouched; evidence goes to a scratch directory, not /verif/evidence.
    """
    dst = VERIF / os.environ.get("SEED_BASE", "seeded") / sid
    meta = json.loads((dst / "meta.json").read_text())
    checks = checks or [meta["property"]]
    head = sh("git -C /repo rev-parse HEAD").stdout.strip()
    sh(f"git -C {wt} checkout -q -f --detach {head}; git -C {wt} reset -q --hard {head}; git -C {wt} clean -fdq")
    a = sh(f"git -C {wt} apply {dst}/patch.diff")
    if a.returncode and (dst / "patch_rebased.diff").exists():
        a = sh(f"git -C {wt} apply {dst}/patch_rebased.diff")
    if a.returncode:
        print("patch does not apply to current HEAD (port it by hand into patch_rebased.diff):", a.stderr[-300:])
        return 2
    res = {}
    evd = f"/tmp/tlv_evid/{Path(wt).name}"
    for c in checks:
        r = subprocess.run(f"./check {c} --tier quick --jobs {os.environ.get('DETECT_JOBS', '8')}", shell=True, capture_output=True, text=True,
                           cwd=str(VERIF), env={**os.environ, "TLV_REPO": wt, "TLV_EVIDENCE_DIR": evd})
        lines = r.stdout.strip().splitlines()
        vio = [ln for ln in lines if ln.startswith("VIOLATION")]
        sig = [ln.strip()[:260] for ln in lines if ln.strip().startswith("signature=")]
        res[c] = {"exit": r.returncode, "violations": len(vio), "signatures": sig[:6], "summary": lines[0][:200] if lines else ""}
        print(c, "exit", r.returncode, "violations", len(vio))
        for s_ in sig[:4]:
            print("   ", s_)
        if r.returncode not in (0, 1):
            print("   stderr:", r.stderr[-400:])
    sh(f"git -C {wt} checkout -q -f HEAD -- . ; git -C {wt} clean -fdq")
    meta.setdefault("detection", {})
    for c, v in res.items():
        meta["detection"][c] = {**v, "repo_head": head[:7], "detected": v["exit"] == 1 and v["violations"] > 0,
                                "how": "patch applied to a scratch worktree at /repo's HEAD, check run with TLV_REPO pointing at it"}
    (dst / "meta.json").write_text(json.dumps(meta, indent=1) + "\n")
    return 0


if __name__ == "__main__":
    cmd = sys.argv[1]
    if cmd == "verify":
        sys.exit(verify(sys.argv[2], sys.argv[3]))
    if cmd == "keep":
        keep(sys.argv[2], sys.argv[3], sys.argv[4])
    if cmd == "detect-wt":
        sys.exit(detect_wt(sys.argv[2], sys.argv[3], sys.argv[4:]))
    if cmd == "detect":
        sys.exit(detect(sys.argv[2], sys.argv[3:]))
