#!/venv/bin/python
"""Summarise the failure signatures of a check run: tools/sigs.py Cxx [key ...] (keys to group by)."""
import collections, json, re, subprocess, sys
prop = sys.argv[1]
keys = sys.argv[2:]
out = subprocess.run(["./check", prop] + ([] if "--tier" not in sys.argv else []), capture_output=True, text=True, cwd="/verif").stdout
lines = out.splitlines()
print(lines[0][:230] if lines else "")
c = collections.Counter()
ex = {}
for ln in lines:
    m = re.search(r"signature=(\{.*\}) count=(\d+)", ln)
    if not m:
        if ln.startswith(("HARNESS", "KNOWN", "STALE")):
            print(ln[:200])
        continue
    s = json.loads(m.group(1))
    k = tuple((kk, json.dumps(s.get(kk))) for kk in (keys or sorted(s)))
    c[k] += 1
    ex.setdefault(k, s)
for k, n in sorted(c.items(), key=lambda x: str(x)):
    print(n, {a: json.loads(b) for a, b in k})
