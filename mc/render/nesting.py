"""Renderers from abstract control-flow skeletons to Python / TS / JS / Rust source text.

A skeleton (forest) is a tuple of nodes; a node is (kind, forest).  Every node is ONE control
structure with exactly one child slot (two-bodied constructs are split by the body that
receives the children).  depth(function) = 1 + max number of nodes on a root-to-leaf path.
"""

from __future__ import annotations

# segment = (open_lines [(relindent, text)], slot, slot_relindent); slot in {"C","S","SC"}
# C = children (simple statement if none), S = one simple statement, SC = statement then children
PY = {
    "IF": ([([(0, "if c:")], "C", 1)], []),
    "IFELSE_T": ([([(0, "if c:")], "C", 1), ([(0, "else:")], "S", 1)], []),
    "IFELSE_E": ([([(0, "if c:")], "S", 1), ([(0, "else:")], "SC", 1)], []),
    "FOR": ([([(0, "for i in xs:")], "C", 1)], []),
    "WHILE": ([([(0, "while c:")], "C", 1)], []),
    "TRY_B": ([([(0, "try:")], "C", 1), ([(0, "except Exception:")], "S", 1)], []),
    "TRY_H": ([([(0, "try:")], "S", 1), ([(0, "except Exception:")], "C", 1)], []),
    "WITH": ([([(0, "with cm() as r:")], "C", 1)], []),
    # SWITCH (match/case) is not rendered for Python: whether `case` is a level of its own is
    # ambiguous in the documentation (see DESIGN C01), so the shape is outside the alphabet.
    # python extras
    "ELIF_I": ([([(0, "if c:")], "C", 1), ([(0, "elif d:")], "S", 1), ([(0, "else:")], "S", 1)], []),
    "ELIF_M": ([([(0, "if c:")], "S", 1), ([(0, "elif d:")], "C", 1), ([(0, "else:")], "S", 1)], []),
    "ELIF_E": ([([(0, "if c:")], "S", 1), ([(0, "elif d:")], "S", 1), ([(0, "else:")], "SC", 1)], []),
    "ASYNC_WITH": ([([(0, "async with cm() as r:")], "C", 1)], []),
    "ASYNC_FOR": ([([(0, "async for i in xs:")], "C", 1)], []),
    "TRY_F": ([([(0, "try:")], "S", 1), ([(0, "finally:")], "C", 1)], []),
}
TS = {
    "IF": ([([(0, "if (c) {")], "C", 1)], [(0, "}")]),
    "IFELSE_T": ([([(0, "if (c) {")], "C", 1), ([(0, "} else {")], "S", 1)], [(0, "}")]),
    "IFELSE_E": ([([(0, "if (c) {")], "S", 1), ([(0, "} else {")], "SC", 1)], [(0, "}")]),
    "FOR": ([([(0, "for (let i = 0; i < n; i++) {")], "C", 1)], [(0, "}")]),
    "WHILE": ([([(0, "while (c) {")], "C", 1)], [(0, "}")]),
    "TRY_B": ([([(0, "try {")], "C", 1), ([(0, "} catch (e) {")], "S", 1)], [(0, "}")]),
    "TRY_H": ([([(0, "try {")], "S", 1), ([(0, "} catch (e) {")], "C", 1)], [(0, "}")]),
    "SWITCH": (
        [([(0, "switch (v) {"), (1, "case 1:")], "C", 2)],
        [(2, "break;"), (1, "default:"), (2, "work();"), (0, "}")],
    ),
    # ts/js extras
    "FOR_IN": ([([(0, "for (const k in o) {")], "C", 1)], [(0, "}")]),
    "FOR_OF": ([([(0, "for (const x of xs) {")], "C", 1)], [(0, "}")]),
    "DO_WHILE": ([([(0, "do {")], "C", 1)], [(0, "} while (c);")]),
    "TRY_F": ([([(0, "try {")], "S", 1), ([(0, "} finally {")], "C", 1)], [(0, "}")]),
}
RS = {
    "IF": ([([(0, "if c {")], "C", 1)], [(0, "}")]),
    "IFELSE_T": ([([(0, "if c {")], "C", 1), ([(0, "} else {")], "S", 1)], [(0, "}")]),
    "IFELSE_E": ([([(0, "if c {")], "S", 1), ([(0, "} else {")], "SC", 1)], [(0, "}")]),
    "FOR": ([([(0, "for i in 0..n {")], "C", 1)], [(0, "}")]),
    "WHILE": ([([(0, "while c {")], "C", 1)], [(0, "}")]),
    "SWITCH": (
        [([(0, "match v {"), (1, "1 => {")], "C", 2)],
        [(1, "}"), (1, "_ => {}"), (0, "}")],
    ),
    # rust extras
    "LOOP": ([([(0, "loop {")], "C", 1)], [(0, "}")]),
    "WHILE_LET": ([([(0, "while let Some(x) = it.next() {")], "C", 1)], [(0, "}")]),
    "IF_LET": ([([(0, "if let Some(x) = o {")], "C", 1)], [(0, "}")]),
    "CLOSURE": ([([(0, "let g = |x: i32| {")], "C", 1)], [(0, "};")]),
    "ASYNC_BLOCK": ([([(0, "let fut = async {")], "C", 1)], [(0, "};")]),
}

NEUTRAL = ["IF", "IFELSE_T", "IFELSE_E", "FOR", "WHILE", "TRY_B", "TRY_H", "SWITCH", "WITH"]
EXTRAS = {
    "py": ["ELIF_I", "ELIF_M", "ELIF_E", "ASYNC_WITH", "ASYNC_FOR", "TRY_F"],
    "ts": ["FOR_IN", "FOR_OF", "DO_WHILE", "TRY_F"],
    "js": ["FOR_IN", "FOR_OF", "DO_WHILE", "TRY_F"],
    "rs": ["LOOP", "WHILE_LET", "IF_LET", "CLOSURE", "ASYNC_BLOCK"],
}
TABLE = {"py": PY, "ts": TS, "js": TS, "rs": RS}
EXT = {"py": ".py", "ts": ".ts", "js": ".js", "rs": ".rs"}
STMT = {"py": "work()", "ts": "work();", "js": "work();", "rs": "work();"}
CONTAINERS = {
    "py": ["def", "method", "async"],
    "ts": ["fn", "arrow", "method", "async", "fexpr"],
    "js": ["fn", "arrow", "method", "async", "fexpr"],
    "rs": ["fn", "method", "async", "modfn"],
}
UNIT = "    "


def kinds_of(forest) -> set:
    out = set()
    for k, sub in forest:
        out.add(k)
        out |= kinds_of(sub)
    return out


def available(forest, lang: str) -> bool:
    return all(k in TABLE[lang] for k in kinds_of(forest))


def render_forest(forest, lang: str, ind: int) -> list[str]:
    if not forest:
        return [UNIT * ind + STMT[lang]]
    out: list[str] = []
    for kind, sub in forest:
        segs, close = TABLE[lang][kind]
        for open_lines, slot, rel in segs:
            for r, text in open_lines:
                out.append(UNIT * (ind + r) + text)
            if slot == "S":
                out.append(UNIT * (ind + rel) + STMT[lang])
            elif slot == "C":
                out.extend(render_forest(sub, lang, ind + rel))
            else:  # SC
                out.append(UNIT * (ind + rel) + STMT[lang])
                if sub:
                    out.extend(render_forest(sub, lang, ind + rel))
        for r, text in close:
            out.append(UNIT * (ind + r) + text)
    return out


def render_function(forest, lang: str, name: str, container: str, cls: str = "K"):
    """Returns (lines, header_offset): header_offset = index in lines of the function header."""
    if lang == "py":
        if kinds_of(forest) & {"ASYNC_WITH", "ASYNC_FOR"} and container != "method":
            container = "async"
        if container == "def":
            return [f"def {name}(a):"] + render_forest(forest, lang, 1) + [""], 0
        if container == "async":
            return [f"async def {name}(a):"] + render_forest(forest, lang, 1) + [""], 0
        if container == "method":
            kw = "async def" if kinds_of(forest) & {"ASYNC_WITH", "ASYNC_FOR"} else "def"
            return (
                [f"class {cls}:", UNIT + f"{kw} {name}(self):"] + render_forest(forest, lang, 2) + [""],
                1,
            )
    elif lang in ("ts", "js"):
        if container == "fn":
            return [f"function {name}(a) {{"] + render_forest(forest, lang, 1) + ["}", ""], 0
        if container == "async":
            return [f"async function {name}(a) {{"] + render_forest(forest, lang, 1) + ["}", ""], 0
        if container == "arrow":
            return [f"const {name} = (a) => {{"] + render_forest(forest, lang, 1) + ["};", ""], 0
        if container == "fexpr":
            return [f"const {name} = function (a) {{"] + render_forest(forest, lang, 1) + ["};", ""], 0
        if container == "method":
            return (
                [f"class {cls} {{", UNIT + f"{name}(a) {{"]
                + render_forest(forest, lang, 2)
                + [UNIT + "}", "}", ""],
                1,
            )
    elif lang == "rs":
        if container == "fn":
            return [f"fn {name}(a: i32) {{"] + render_forest(forest, lang, 1) + ["}", ""], 0
        if container == "async":
            return [f"async fn {name}(a: i32) {{"] + render_forest(forest, lang, 1) + ["}", ""], 0
        if container == "method":
            return (
                [f"impl {cls} {{", UNIT + f"fn {name}(&self) {{"]
                + render_forest(forest, lang, 2)
                + [UNIT + "}", "}", ""],
                1,
            )
        if container == "modfn":
            return (
                [f"mod m_{name} {{", UNIT + f"fn {name}(a: i32) {{"]
                + render_forest(forest, lang, 2)
                + [UNIT + "}", "}", ""],
                1,
            )
    raise ValueError((lang, container))


def render_file(funcs, lang: str):
    """funcs: list of (name, forest, container). Returns (text, {name: header_line (1-based)})."""
    lines: list[str] = []
    headers = {}
    for i, (name, forest, container) in enumerate(funcs):
        fl, off = render_function(forest, lang, name, container, cls=f"K{i}")
        headers[name] = len(lines) + off + 1
        lines.extend(fl)
    return "\n".join(lines) + "\n", headers


def depth(forest) -> int:
    """Reference model: 1 for the body + one per enclosing control structure."""
    return 1 + max((depth(sub) for _k, sub in forest), default=0)


def deepest_paths(forest):
    """All root-to-leaf kind paths of maximal length."""
    best: list[tuple] = []
    bl = -1

    def rec(f, path):
        nonlocal best, bl
        if not f:
            if len(path) > bl:
                best, bl = [tuple(path)], len(path)
            elif len(path) == bl:
                best.append(tuple(path))
            return
        for k, sub in f:
            rec(sub, path + [k])

    rec(forest, [])
    return best


def unwraps(forest):
    """All (kind, forest') obtained by deleting one leaf node that is the UNIQUE deepest leaf
    (so that the model says depth(forest) = depth(forest') + 1)."""
    out = []
    d = depth(forest)
    if d < 2:
        return out

    def rec(f, level):
        # yields (kind, new_forest) for deletable leaves at absolute level d-1
        res = []
        for i, (k, sub) in enumerate(f):
            if not sub:
                if level + 1 == d - 1:
                    res.append((k, f[:i] + f[i + 1 :]))
            else:
                for kk, nsub in rec(sub, level + 1):
                    res.append((kk, f[:i] + ((k, nsub),) + f[i + 1 :]))
        return res

    for k, nf in rec(forest, 0):
        if depth(nf) == d - 1:
            out.append((k, nf))
    return out
