"""C15 — each command reports only its own rules; rules fire only on their languages.

E-input, full matrix: every command x the multi-language zoo project (rule ids must belong to the
command) x every setting of every OTHER linter's section (findings must not change) ; every
documented violating example x every extension spelling (lower/upper/mixed), x every foreign and
unsupported extension, x extensionless with/without a python shebang.
"""

from __future__ import annotations

from mc.catalog import load
from mc.core import obs
from mc.core.enum import chunks
from mc.core.isolate import project, remove, yaml_dump
from mc.core.runner import Acc

PROPERTY = "C15"
LEVEL = "model_checking"
RULE = (
    "case = (command, project, foreign-section setting) or (linter, documented example, file name "
    "variant); complete product; non-trivial = the baseline run reports a violation (so there is "
    "something that could leak, change or disappear); distinct by the whole tuple"
)
ASSUMPTIONS = [
    "which rule ids belong to which command is taken from the CLI reference / linter docs (mc/catalog/load.py COMMAND_PREFIX)",
    "single-language linters are those whose documentation lists exactly one language",
    "file-placement (path-based) and file-header's documented non-source languages (.md/.css/.sh) are exempt from the `unrecognised type` clause",
]
BOUND = {
    "quick": "20 commands x zoo x 5 settings of all other sections; 20 commands x 19 foreign sections one at a time (strictest); every catalog trigger x {lower, UPPER, Mixed} extension x 10 foreign/unsupported extensions x shebang variants",
    "thorough": "same plus all pairs of foreign-section settings for every command",
}
MIN_NONTRIVIAL = {"quick": 300, "thorough": 600}
UNSUPPORTED = [".java", ".go", ".c", ".txt", ".json", ".xyz", ".rb"]
SUPPORTED = {"python": [".py"], "typescript": [".ts", ".tsx"], "javascript": [".js", ".jsx"], "rust": [".rs"]}


def _foreign_settings(own: str):
    """name -> config dict touching every section except the command's own linter."""
    L = load.linters()
    absent, disabled, strict, lenient, garbage = {}, {}, {}, {}, {}
    for name, d in L.items():
        if name == own:
            continue
        sec = (d.get("config_sections") or [name])[0]
        disabled[sec] = {"enabled": False}
        s, l = {"enabled": True}, {"enabled": True}
        for o in d.get("options", []):
            if o.get("type") in ("integer", "int") and o.get("direction") and "." not in o["key"]:
                # only values every linter accepts as valid (an invalid foreign value legitimately
                # ends the run with exit 2, which is C05's subject, not a leak)
                hp = o["direction"] == "higher-permissive"
                s[o["key"]] = 2 if hp else 20
                if hp and o["key"] != "min_values_for_enum":
                    l[o["key"]] = 20
        strict[sec], lenient[sec] = s, l
        garbage[sec] = {"enabled": True, "no_such_option": [1, {"x": None}], "ignore": []}
    return {"absent": absent, "disabled": disabled, "strictest": strict, "lenient": lenient, "unknown-keys": garbage}


def _own_linter(cmd: str):
    for name, d in load.linters().items():
        if cmd in (d.get("commands") or []):
            return name
    return None


def items(tier: str, seed: int):
    out = []
    for cmd in load.ALL_COMMANDS:
        out.append({"kind": "command", "cmd": cmd, "pairs": tier == "thorough"})
    trig = [(n, lg) for (n, lg, _f, _c) in load.all_triggers()]
    for block in chunks(trig, 3):
        out.append({"kind": "extension", "triggers": block})
    return out


def _lint(cmd, files, cfg, prefixes=None):
    fs = dict(files)
    if cfg:
        fs[".thailint.yaml"] = yaml_dump(cfg)
    root = project(fs)
    r = obs.cli_json([cmd, "."], root)
    vs = None
    if r["violations"] is not None:
        vs = obs.norm(r["violations"], root, root)
    remove(root)
    return vs, r


def run_item(item) -> Acc:
    acc = Acc()
    k = item["kind"]
    if k == "command":
        cmd = item["cmd"]
        own = _own_linter(cmd)
        zoo, cfg, _idx = load.zoo_project()
        own_cfg = {}
        if own:
            sec = (load.linters()[own].get("config_sections") or [own])[0]
            for key in (sec, sec.replace("-", "_")):
                if key in cfg:
                    own_cfg[key] = cfg[key]
        base, r0 = _lint(cmd, zoo, own_cfg)
        acc.case()
        acc.valid()
        case0 = {"cmd": cmd, "setting": "absent"}
        if base is None:
            acc.fail({"check": "baseline-exit", "command": cmd}, case0, "exit 0/1", {"exit": r0["exit_code"], "stderr": r0["stderr"][-300:]})
            return acc
        allowed = load.COMMAND_PREFIX[cmd]
        foreign = sorted({t[0] for t in base if not any(t[0] == p or t[0].startswith(p + ".") or t[0].startswith(p) for p in allowed)})
        if base:
            acc.nt((cmd, "own-rules"))
        for rid in foreign:
            acc.fail({"check": "foreign-rule-id", "command": cmd, "rule": rid}, case0, f"only rule ids of {allowed}", rid)
        settings = _foreign_settings(own)
        for sname, fcfg in settings.items():
            got, r = _lint(cmd, zoo, load.deep_merge(fcfg, own_cfg))
            acc.case()
            acc.edge()
            acc.valid()
            if base:
                acc.nt((cmd, sname))
            acc.outcome((cmd, sname, None if got is None else len(got)))
            if got != base:
                acc.fail({"check": "foreign-config-changes-findings", "command": cmd, "setting": sname}, {"cmd": cmd, "setting": sname}, {"n": len(base)}, {"n": None if got is None else len(got), "exit": r["exit_code"], "stderr": r["stderr"][-200:]}, "configuring OTHER linters changed this command's findings")
        # one foreign section at a time (strictest), so that a leak is attributed to its source
        for sec, val in settings["strictest"].items():
            got, r = _lint(cmd, zoo, load.deep_merge({sec: val}, own_cfg))
            acc.case()
            acc.edge()
            if base:
                acc.nt((cmd, "single", sec))
            if got != base:
                acc.fail({"check": "foreign-config-changes-findings", "command": cmd, "foreign_section": sec}, {"cmd": cmd, "setting": "single-strictest", "section": sec}, {"n": len(base)}, {"n": None if got is None else len(got), "exit": r["exit_code"]})
        if item["pairs"]:
            names = list(settings)
            for a in names:
                for b in names:
                    if a >= b:
                        continue
                    mix = load.deep_merge(settings[a], {})
                    for i, (sec, val) in enumerate(settings[b].items()):
                        if i % 2:
                            mix[sec] = val
                    got, r = _lint(cmd, zoo, load.deep_merge(mix, own_cfg))
                    acc.case()
                    acc.edge()
                    if base:
                        acc.nt((cmd, a, b))
                    if got != base:
                        acc.fail({"check": "foreign-config-changes-findings", "command": cmd, "setting": f"{a}+{b}"}, {"cmd": cmd, "setting": f"{a}+{b}"}, {"n": len(base)}, {"n": None if got is None else len(got)})
        acc.sample({"command": cmd, "baseline_violations": len(base), "settings": list(settings)})
    elif k == "extension":
        for name, lang in item["triggers"]:
            d = load.linters()[name]
            cmd = load.primary_command(name)
            if not cmd or d.get("cross_file") or name == "file-placement":
                continue
            # linters whose verdict also depends on the path (test directories, header rules per file type):
            # only the spelling of the extension is varied for them, directory and stem stay as documented
            case_only = bool(d.get("path_sensitive")) or lang not in SUPPORTED
            fs = load.trigger_files(name, lang)
            cfg = load.trigger_config(name, lang)
            if not fs or len(fs) != 1:
                continue
            (rel, code), = fs.items()
            stem = rel.rsplit(".", 1)[0]
            ext = "." + rel.rsplit(".", 1)[1]
            prefix = load.COMMAND_PREFIX[cmd][0]

            def own(vs):
                return [t for t in (vs or []) if t[0].startswith(prefix)]

            base, r0 = _lint(cmd, {rel: code}, cfg)
            acc.case()
            acc.valid()
            if not own(base):
                acc.stat("skipped_trigger_silent_see_C19")
                continue
            ref = sorted((t[0], t[2], t[3], t[4]) for t in own(base))
            # (1) case-insensitive extension
            for variant in (ext.upper(), ext[:2].upper() + ext[2:]):
                if variant == ext:
                    continue
                got, r = _lint(cmd, {stem + variant: code}, cfg)
                acc.case()
                acc.edge()
                acc.valid()
                acc.nt((name, lang, variant))
                g = sorted((t[0], t[2], t[3], t[4]) for t in own(got))
                if g != ref:
                    acc.fail({"check": "extension-case", "linter": name, "lang": lang}, {"cmd": cmd, "file": stem + variant, "code": code, "config": cfg}, ref[:3], g[:3], "the same file with an upper/mixed-case extension is analysed differently")
            if case_only:
                continue
            # (2) single-language linter on foreign / unsupported extensions
            langs = [lg for lg in (d.get("languages") or {}) if lg in SUPPORTED]
            single = len(langs) == 1
            foreign_exts = [e for lg, es in SUPPORTED.items() if lg not in langs for e in es]
            targets = ([(e, "foreign-language") for e in foreign_exts] if single else []) + ([(e, "unrecognised-type") for e in UNSUPPORTED] if name not in ("file-placement",) else [])
            for e, why in targets:
                got, r = _lint(cmd, {stem + e: code}, cfg)
                acc.case()
                acc.edge()
                acc.valid()
                acc.nt((name, lang, e))
                if own(got):
                    acc.fail({"check": why, "linter": name, "ext": e}, {"cmd": cmd, "file": stem + e, "code": code, "config": cfg}, "no violation", own(got)[:2], f"{name} reported on a {why} file")
            # (3) extensionless scripts: python shebang selects python, nothing else does
            if lang == "python":
                for sb, expect in (("#!/usr/bin/env python3\n", True), ("#!/usr/bin/python\n", True), ("#!/bin/sh\n", False), ("#!/bin/sh\n# starts the tool through python -m\n", False), ("#!/usr/bin/env node\n", False), ("", False)):
                    got, r = _lint(cmd, {stem: sb + code}, cfg)
                    acc.case()
                    acc.edge()
                    acc.valid()
                    acc.nt((name, "shebang", sb))
                    g = sorted((t[0], t[2] - sb.count("\n"), t[4]) for t in own(got))
                    want = sorted((t[0], t[1], t[3]) for t in ref) if expect else []
                    if name in ("file-header", "lazy-ignores") and expect:
                        # header-sensitive linters: only presence is compared (the shebang is part of the header)
                        if not g:
                            acc.fail({"check": "shebang", "linter": name, "shebang": sb.strip()}, {"cmd": cmd, "file": stem, "code": sb + code, "config": cfg}, "analysed as python", g)
                        continue
                    if g != want:
                        acc.fail({"check": "shebang", "linter": name, "shebang": sb.strip() or "<none>"}, {"cmd": cmd, "file": stem, "code": sb + code, "config": cfg}, want[:3], g[:3], "extensionless file: python iff it has a python shebang")
                # (3b) the same script addressed from a working directory below the project root,
                # and a link with an unsupported name that points at the source file
                if name not in ("file-header", "lazy-ignores"):
                    import os as _os  # noqa: PLC0415

                    fsx = {"manage": "#!/usr/bin/env python3\n" + code, "real_source.py": code, "work/keep.txt": "x\n"}
                    if cfg:
                        fsx[".thailint.yaml"] = yaml_dump(cfg)
                    root = project(fsx)
                    _os.symlink(root / "real_source.py", root / "notes.txt")
                    r1 = obs.cli_json([cmd, "../manage"], root / "work")
                    r2 = obs.cli_json([cmd, "notes.txt"], root)
                    remove(root)
                    acc.case(2)
                    acc.edge(2)
                    acc.valid()
                    acc.nt((name, "shebang-from-subdir"))
                    g1 = sorted((t[0], t[2] - 1, t[4]) for t in own(obs.norm(r1["violations"] or [], root, root / "work")))
                    want1 = sorted((t[0], t[1], t[3]) for t in ref)
                    if g1 != want1:
                        acc.fail({"check": "shebang", "linter": name, "shebang": "script-addressed-from-a-sub-directory"}, {"cmd": cmd, "file": "manage", "code": "#!/usr/bin/env python3\n" + code, "config": cfg, "cwd": "work", "target": "../manage"}, want1[:3], g1[:3])
                    g2 = own(obs.norm(r2["violations"] or [], root, root))
                    if g2:
                        acc.fail({"check": "unrecognised-type", "linter": name, "ext": ".txt-symlink-to-.py"}, {"cmd": cmd, "file": "notes.txt", "code": code, "config": cfg}, "no violation", g2[:2], "a link called notes.txt is an unrecognised file type whatever it points at")
                # (4) several extensionless files in ONE run, in both orders: each is judged on its own shebang
                if name not in ("file-header", "lazy-ignores"):
                    script = "#!/usr/bin/env python3\n" + code
                    for order in (["manage", "NOTES", "runner"], ["NOTES", "runner", "manage"], ["runner", "manage", "NOTES"]):
                        fs3 = {"manage": script, "NOTES": code, "runner": "#!/bin/sh\n" + code}
                        fs = dict(fs3)
                        if cfg:
                            fs[".thailint.yaml"] = yaml_dump(cfg)
                        root = project(fs)
                        r = obs.cli_json([cmd, *order], root)
                        got = None if r["violations"] is None else obs.norm(r["violations"], root, root)
                        remove(root)
                        acc.case()
                        acc.edge()
                        acc.valid()
                        acc.nt((name, "extensionless-together", tuple(order)))
                        g = sorted((t[0], t[1], t[2] - 1, t[4]) for t in own(got))
                        want = sorted((t[0], "manage", t[1], t[3]) for t in ref)
                        if g != want:
                            acc.fail({"check": "shebang", "linter": name, "shebang": "several-extensionless-files-in-one-run"}, {"cmd": cmd, "files": fs3, "order": order, "config": cfg}, want[:3], g[:3], "only `manage` has a python shebang")
        acc.sample({"triggers": item["triggers"], "variants": ["UPPER ext", "Mixed ext", "foreign ext", "unsupported ext", "shebang"]})
    return acc


def replay_case(case) -> list[dict]:
    if "files" in case and "order" in case:
        root = project({**case["files"], **({".thailint.yaml": yaml_dump(case["config"])} if case.get("config") else {})})
        r = obs.cli_subprocess([case["cmd"], "--format", "json", *case["order"]], root)
        print(f"$ thailint {case['cmd']} --format json {' '.join(case['order'])}\nexit={r['exit_code']}\n{r['stdout'][:1500]}")
        remove(root)
        a = Acc()
        doc = obs.parse_json_out(r["stdout"]) or []
        wrong = [v for v in doc if not str(v["file"]).endswith("manage")]
        if wrong or not doc:
            a.fail({"replayed": True}, case, "violations for `manage` only", [(v["rule_id"], v["file"]) for v in doc][:4])
        return a.failures
    if "file" in case:
        root = project({case["file"]: case["code"], **({".thailint.yaml": yaml_dump(case["config"])} if case.get("config") else {})})
        r = obs.cli_subprocess([case["cmd"], "--format", "json", "."], root)
        print(f"file {case['file']!r}:\n{case['code']}\n$ thailint {case['cmd']} --format json .\nexit={r['exit_code']}\n{r['stdout'][:1500]}")
        remove(root)
        a = Acc()
        doc = obs.parse_json_out(r["stdout"]) or []
        if doc:
            a.fail({"replayed": True}, case, "see above", [v["rule_id"] for v in doc][:4])
        return a.failures
    a = run_item({"kind": "command", "cmd": case["cmd"], "pairs": False})
    return [f for f in a.failures if f["case"].get("setting") == case.get("setting")]
