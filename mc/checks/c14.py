"""C14 — a run lints exactly the non-excluded, non-ignored files under the given paths.

E-input: all small directory trees (by entry count, depth <= 3) over a directory/file-name alphabet
that contains every always-excluded directory name and every compiled-artefact extension the
statement lists, x targets (root recursive / non-recursive, every sub-directory, every file named
explicitly), and a second family of trees x every documented ignore-pattern form x carrier.
Every file is made to carry a violation (file-placement deny '.*'), so the set of reported files
IS the set of linted files; it is compared with a reference model in both directions.
"""

from __future__ import annotations

import fnmatch
import itertools

from mc.core import obs
from mc.core.enum import chunks
from mc.core.isolate import project, remove, yaml_dump
from mc.core.runner import Acc

PROPERTY = "C14"
LEVEL = "model_checking"
RULE = (
    "case = (tree, ignore patterns + carrier, target, recursive flag): one real `thailint "
    "file-placement` run with a deny-everything rule; non-trivial = the tree contains at least one "
    "file the model excludes/ignores AND at least one it keeps under that target, or the target "
    "is an excluded/ignored file; distinct by the whole tuple"
)
ASSUMPTIONS = [
    "always-excluded directories and compiled extensions are exactly those the statement lists (htmlcov, .tox, .eggs, .svn, .hg are outside the alphabet)",
    "ignore patterns follow gitignore-style semantics restricted to the documented forms; combinations the documentation leaves open (`**/x` at depth 0, `?`/`[..]` patterns below the top level) are not judged",
    "cwd = project root and targets are relative (path spelling is C09's subject)",
]
BOUND = {
    "quick": "exclusion trees: all with <=3 entries x 11 excluded names, all with 4 entries with the excluded name rotated; pattern trees: all with <=3 entries (depth<=2) x 9 single patterns x 2 carriers; every target; recursive and non-recursive",
    "thorough": "exclusion trees: all with <=4 entries x 11 excluded names, 5 entries rotated; pattern trees: <=4 entries x single patterns and all pattern pairs x 3 carriers",
}
MIN_NONTRIVIAL = {"quick": 3000, "thorough": 20000}

EXCLUDED = [".git", "node_modules", "__pycache__", ".venv", "venv", "build", "dist", ".pytest_cache", ".mypy_cache", ".ruff_cache", "x.egg-info"]
COMPILED = [".pyc", ".pyo", ".pyd", ".so", ".dll", ".dylib", ".class", ".o", ".obj"]
PLACEMENT = {"file-placement": {"global_patterns": {"deny": [".*"]}}}


def trees(n, depth, dnames, fnames):
    """All trees (sorted tuples of (name, subtree|None)) with exactly n entries, depth <= depth."""
    names = [(d, True) for d in dnames] + [(f, False) for f in fnames]

    def rec(n, depth, start):
        if n == 0:
            yield ()
            return
        for i in range(start, len(names)):
            nm, isdir = names[i]
            if isdir:
                if depth <= 0:
                    continue
                for k in range(0, n):
                    for sub in rec(k, depth - 1, 0):
                        for rest in rec(n - 1 - k, depth, i + 1):
                            yield ((nm, sub),) + rest
            else:
                for rest in rec(n - 1, depth, i + 1):
                    yield ((nm, None),) + rest

    yield from rec(n, depth, 0)


def has_name(t, name):
    return any(nm == name or (sub is not None and has_name(sub, name)) for nm, sub in t)


def rename(t, mapping):
    return tuple((mapping.get(nm, nm), rename(sub, mapping) if sub is not None else None) for nm, sub in t)


def flatten(t, prefix=""):
    """-> (files [relative posix], dirs [relative posix])"""
    files, dirs = [], []
    for nm, sub in t:
        p = prefix + nm
        if sub is None:
            files.append(p)
        else:
            dirs.append(p)
            f2, d2 = flatten(sub, p + "/")
            files += f2
            dirs += d2
    return files, dirs


# ----------------------------------------------------------------------------- model


def excluded_dir_name(part: str) -> bool:
    return part in EXCLUDED[:-1] or part.endswith(".egg-info")


def pattern_verdict(rel: str, pat: str):
    """True = ignored, False = not ignored, None = documentation leaves it open."""
    parts = rel.split("/")
    base = parts[-1]
    dirs = parts[:-1]
    if pat.startswith("**/"):
        inner = pat[3:]
        if inner.endswith("/"):
            segs = inner[:-1].split("/")
            hits = [i for i in range(len(dirs) - len(segs) + 1) if dirs[i : i + len(segs)] == segs]
            if any(i >= 1 for i in hits):
                return True
            if hits:
                return None
            return False
        if fnmatch.fnmatchcase(base, inner):
            return True if dirs else None
        return False
    if pat.endswith("/**"):
        return rel.startswith(pat[:-2])
    if pat.endswith("/"):
        return pat[:-1] in dirs
    if "/" in pat:
        return rel == pat
    # bare glob: gitignore matches the basename at any depth
    if fnmatch.fnmatchcase(base, pat):
        if dirs and any(c in pat for c in "?["):
            return None
        return True
    return False


def model(files, patterns, target, recursive, target_is_file):
    """-> (expected set, undecided set) of project-relative files for this run."""
    exp, open_ = set(), set()
    for f in files:
        if target_is_file:
            if f != target:
                continue
        elif target != ".":
            if not f.startswith(target + "/"):
                continue
            if not recursive and "/" in f[len(target) + 1 :]:
                continue
        elif not recursive and "/" in f:
            continue
        parts = f.split("/")
        if any(excluded_dir_name(p) for p in parts[:-1]):
            continue
        if any(f.endswith(e) for e in COMPILED):
            continue
        vs = [pattern_verdict(f, p) for p in patterns]
        if any(v is True for v in vs):
            continue
        if any(v is None for v in vs):
            open_.add(f)
            continue
        exp.add(f)
    return exp, open_


# ----------------------------------------------------------------------------- items

PAT_SINGLE = ["legacy/", "*.py", "*_gen.py", "**/legacy/", "**/*_gen.py", "sub/a.py", "legacy/**", "file?.py", "file[123].py"]


def items(tier: str, seed: int):
    out = []
    dn, fn = ["pkg", "EX", ".hid"], ["a.py", "c.txt", "m.COMP"]
    full_n = 3 if tier == "quick" else 4
    idx = seed
    for n in range(1, full_n + 2):
        ts = list(trees(n, 3, dn, fn))
        inst = []
        for t in ts:
            idx += 1
            comp = COMPILED[idx % len(COMPILED)]
            if has_name(t, "EX"):
                exs = EXCLUDED if n <= full_n else [EXCLUDED[idx % len(EXCLUDED)]]
            else:
                exs = [EXCLUDED[idx % len(EXCLUDED)]]
            for ex in exs:
                if ex == ".git" and any(d.endswith("/EX") for d in flatten(t)[1]):
                    # a nested .git makes the sub-directory a project of its own; which
                    # configuration then applies is not defined by the statement
                    continue
                inst.append(rename(t, {"EX": ex, "m.COMP": "m" + comp}))
        for block in chunks(inst, 25):
            out.append({"kind": "excl", "trees": block})
    pn = 3 if tier == "quick" else 4
    dn2, fn2 = ["legacy", "legacy2", "sub"], ["a.py", "a_gen.py", "file1.py"]
    pts = [t for n in range(1, pn + 1) for t in trees(n, 2, dn2, fn2)]
    carriers = ["ignorefile", "yaml", "explicit"] if tier == "quick" else ["ignorefile", "yaml", "explicit", "both"]
    psets = [[p] for p in PAT_SINGLE]
    if tier == "thorough":
        psets += [list(c) for c in itertools.combinations(PAT_SINGLE, 2)]
    for block in chunks(pts, 12):
        for ps_block in chunks(psets, 9):
            out.append({"kind": "pat", "trees": block, "psets": ps_block, "carriers": carriers})
    out.append({"kind": "multiseg", "carriers": carriers})
    out.append({"kind": "subprocess"})
    return out


# ----------------------------------------------------------------------------- execution


def _materialise(t, patterns, carrier):
    files, dirs = flatten(t)
    content = {f: ("x = 1\n" if f.endswith((".py", ".ts")) else "x\n") for f in files}
    cfg = dict(PLACEMENT)
    extra = [".thailint.yaml"]
    if patterns:
        if carrier in ("yaml", "explicit"):
            cfg["ignore"] = list(patterns)
        elif carrier == "ignorefile":
            content[".thailintignore"] = "# patterns\n" + "\n".join(patterns) + "\n"
            extra.append(".thailintignore")
        elif carrier == "both":
            half = max(1, len(patterns) // 2)
            content[".thailintignore"] = "\n".join(patterns[:half]) + "\n"
            cfg["ignore"] = list(patterns[half:]) or list(patterns[:1])
            extra.append(".thailintignore")
    if carrier == "explicit":
        # the whole configuration is handed over with --config; nothing is auto-discovered
        content["lintcfg/chosen.yaml"] = yaml_dump(cfg)
        extra = ["lintcfg/chosen.yaml"]
    else:
        content[".thailint.yaml"] = yaml_dump(cfg)
    root = project(content)
    for d in dirs:
        (root / d).mkdir(parents=True, exist_ok=True)
    return root, files + extra, dirs


def _one_run(acc, root, allfiles, patterns, carrier, target, recursive, is_file, tree, front="inproc"):
    argv = ["file-placement"] + (["--config", "lintcfg/chosen.yaml"] if carrier == "explicit" else []) + ([] if recursive else ["--no-recursive"]) + (["--parallel"] if front == "parallel" else []) + [target]
    r = obs.cli_json(argv, root, sub=(front == "subprocess"))
    case = {"tree": tree, "patterns": patterns, "carrier": carrier, "target": target, "recursive": recursive, "is_file": is_file}
    acc.case()
    if r["violations"] is None:
        acc.fail({"site": "run", "mode": f"exit{r['exit_code']}"}, case, "exit 0/1", {"exit": r["exit_code"], "stderr": r["stderr"][-300:]})
        return None
    got = {obs.relfile(v["file"], root, root) for v in r["violations"] if v["rule_id"].startswith("file-placement")}
    exp, open_ = model(allfiles, patterns, target, recursive, is_file)
    acc.valid()
    universe = set(allfiles)
    excluded_here = {f for f in universe if f not in exp and f not in open_}
    if (exp and (excluded_here & _under(universe, target, is_file))) or (is_file and not exp and target not in open_):
        acc.nt((tree, patterns, carrier, target, recursive))
    acc.outcome((len(got), len(exp)))
    extra = got - exp - open_
    missing = exp - got
    for f in sorted(extra):
        acc.fail(_sig("linted-but-excluded", f, patterns, carrier, is_file, front), {**case, "file": f}, sorted(exp), sorted(got), "a file the statement excludes/ignores contributed a violation")
    for f in sorted(missing):
        acc.fail(_sig("not-linted", f, patterns, carrier, is_file, front), {**case, "file": f}, sorted(exp), sorted(got), "a file under the target that must be linted was not reported")
    return got


def _under(universe, target, is_file):
    if is_file:
        return {target}
    if target == ".":
        return universe
    return {f for f in universe if f.startswith(target + "/")}


def _sig(mode, f, patterns, carrier, is_file, front):
    parts = f.split("/")
    why = "plain"
    exd = [p for p in parts[:-1] if excluded_dir_name(p)]
    if exd:
        why = "excluded-dir:" + ("*.egg-info" if exd[0].endswith(".egg-info") else exd[0])
    elif any(f.endswith(e) for e in COMPILED):
        why = "compiled:" + "." + f.rsplit(".", 1)[-1]
    elif patterns:
        hit = [p for p in patterns if pattern_verdict(f, p)]
        why = "pattern:" + (hit[0] if hit else "|".join(patterns) + ":nomatch")
    sig = {"mode": mode, "why": why}
    if mode == "linted-but-excluded":
        sig["explicit_file_target"] = bool(is_file)
    if patterns and carrier == "both":
        sig["carrier"] = carrier
    if front != "inproc":
        sig["front"] = front
    return sig


def _all_targets(acc, root, allfiles, dirs, patterns, carrier, tree, front="inproc"):
    """Every target of the tree; plus the relations between the runs (no model involved):
    non-recursive subset of recursive, sub-directory run = restriction of the root run,
    explicit file run = membership in the root run."""
    whole = _one_run(acc, root, allfiles, patterns, carrier, ".", True, False, tree, front)
    flat = _one_run(acc, root, allfiles, patterns, carrier, ".", False, False, tree, front)
    if front == "inproc":
        # the same two runs with --parallel (the file set is collected before any pool is used)
        _one_run(acc, root, allfiles, patterns, carrier, ".", True, False, tree, "parallel")
        _one_run(acc, root, allfiles, patterns, carrier, ".", False, False, tree, "parallel")
    case = {"tree": tree, "patterns": patterns, "carrier": carrier}
    if whole is not None and flat is not None:
        acc.edge()
        if flat != {f for f in whole if "/" not in f}:
            acc.fail({"edge": "non-recursive-vs-recursive"}, {**case, "target": ".", "recursive": False, "is_file": False}, sorted(f for f in whole if "/" not in f), sorted(flat))
    for d in dirs:
        sub = _one_run(acc, root, allfiles, patterns, carrier, d, True, False, tree, front)
        if whole is not None and sub is not None:
            acc.edge()
            if sub != {f for f in whole if f.startswith(d + "/")}:
                acc.fail({"edge": "subdir-vs-root"}, {**case, "target": d, "recursive": True, "is_file": False}, sorted(f for f in whole if f.startswith(d + "/")), sorted(sub))
        if "/" not in d:
            _one_run(acc, root, allfiles, patterns, carrier, d, False, False, tree, front)
    # several targets in one invocation: directory (recursive / non-recursive) + an explicit file
    nested = [f for f in allfiles if "/" in f and not f.startswith((".thailint", "lintcfg/"))][:2]
    for f in nested:
        for rec in (True, False):
            argv = ["file-placement"] + (["--config", "lintcfg/chosen.yaml"] if carrier == "explicit" else []) + ([] if rec else ["--no-recursive"]) + [".", f]
            r = obs.cli_json(argv, root, sub=(front == "subprocess"))
            acc.case()
            acc.edge()
            if r["violations"] is None:
                continue
            got = {obs.relfile(v["file"], root, root) for v in r["violations"] if v["rule_id"].startswith("file-placement")}
            e1, o1 = model(allfiles, patterns, ".", rec, False)
            e2, o2 = model(allfiles, patterns, f, True, True)
            want, open_ = e1 | e2, o1 | o2
            if (got - open_) != (want - open_):
                miss, extra = sorted(want - got - open_), sorted(got - want - open_)
                acc.fail({"edge": "dir-plus-explicit-file", "recursive": rec, "mode": "missing" if miss and not extra else ("extra" if extra and not miss else "differs")}, {"tree": tree, "patterns": patterns, "carrier": carrier, "target": [".", f], "recursive": rec, "is_file": False, "multi": True}, sorted(want), sorted(got), "directory target plus an explicitly named file in one invocation = union of both")
    for f in allfiles:
        if f.startswith((".thailint", "lintcfg/")):
            continue
        one = _one_run(acc, root, allfiles, patterns, carrier, f, True, True, tree, front)
        if whole is not None and one is not None:
            acc.edge()
            if one != ({f} & whole):
                acc.fail({"edge": "explicit-file-vs-root"}, {**case, "target": f, "recursive": True, "is_file": True}, sorted({f} & whole), sorted(one))


def run_item(item) -> Acc:
    acc = Acc()
    k = item["kind"]
    if k == "excl":
        for t in item["trees"]:
            root, allfiles, dirs = _materialise(t, [], None)
            _all_targets(acc, root, allfiles, dirs, [], None, t)
            remove(root)
        acc.sample({"tree": item["trees"][-1], "targets": "root (recursive, non-recursive), every sub-directory, every file"})
    elif k == "pat":
        for t in item["trees"]:
            for ps in item["psets"]:
                for carrier in item["carriers"]:
                    if carrier == "both" and len(ps) < 2:
                        continue
                    root, allfiles, dirs = _materialise(t, ps, carrier)
                    _all_targets(acc, root, allfiles, dirs, ps, carrier, t)
                    remove(root)
        acc.sample({"tree": item["trees"][-1], "patterns": item["psets"][-1], "carriers": item["carriers"]})
    elif k == "multiseg":
        # directory patterns of more than one segment below `**/` (gitignore: the directory chain anywhere)
        leaf = (("a.py", None),)
        t = (("pkg", (("sub", (("legacy", (("a.py", None), ("deep", leaf))), ("legacy2", leaf), ("a.py", None))), ("legacy", leaf))), ("sub", (("legacy", leaf),)), ("a.py", None))
        for ps in (["**/sub/legacy/"], ["**/legacy/deep/"], ["**/pkg/sub/"], ["**/sub/legacy/", "**/legacy/"]):
            for carrier in item["carriers"]:
                if carrier == "both" and len(ps) < 2:
                    continue
                root, allfiles, dirs = _materialise(t, ps, carrier)
                _all_targets(acc, root, allfiles, dirs, ps, carrier, t)
                remove(root)
        acc.sample({"tree": t, "patterns": ["**/sub/legacy/", "**/legacy/deep/", "**/pkg/sub/"], "carriers": item["carriers"]})
    elif k == "subprocess":
        t = (("build", (("a.py", None),)), ("legacy", (("a.py", None),)), ("pkg", (("__pycache__", (("m.pyc", None),)), ("a.py", None))), ("a_gen.py", None), ("m.so", None))
        for ps, carrier in (([], None), (["legacy/"], "ignorefile"), (["*_gen.py"], "yaml")):
            root, allfiles, dirs = _materialise(t, ps, carrier)
            _all_targets(acc, root, allfiles, dirs, ps, carrier, t, front="subprocess")
            remove(root)
    return acc


def _tt(t):
    return tuple((nm, _tt(sub) if sub is not None else None) for nm, sub in t)


def replay_case(case) -> list[dict]:
    acc = Acc()
    t = _tt(case["tree"])
    if case.get("multi"):
        root, allfiles, dirs = _materialise(t, case["patterns"], case["carrier"])
        _all_targets(acc, root, allfiles, dirs, case["patterns"], case["carrier"], t)
        remove(root)
        return [f for f in acc.failures if f["case"].get("multi") and f["case"]["target"] == case["target"] and f["case"]["recursive"] == case["recursive"]]
    root, allfiles, dirs = _materialise(t, case["patterns"], case["carrier"])
    print("files:", sorted(allfiles), "\npatterns:", case["patterns"], "via", case["carrier"])
    print(f"$ thailint file-placement {'' if case['recursive'] else '--no-recursive '}{case['target']}   (cwd = project root)")
    _one_run(acc, root, allfiles, case["patterns"], case["carrier"], case["target"], case["recursive"], case["is_file"], t, front="subprocess")
    remove(root)
    return acc.failures
