"""C02 — magic-number linter flags exactly the non-allowed literals outside exemptions.

E-input: every (placement context x literal spelling) single-literal snippet in Python, TypeScript,
JavaScript and Rust, batched into files, under every allowed_numbers / max_small_integer setting
of the menu; reference model: reported multiset = {(line, value) | literal value not allowed and
placement not exempt}.  Edges: adding a value to allowed_numbers removes exactly the violations of
that value (and removing it adds exactly those).  Non-literals are never reported.
"""

from __future__ import annotations

import ast
import collections
import re

from mc.core import obs
from mc.core.enum import chunks
from mc.core.isolate import project, remove, yaml_dump
from mc.core.runner import Acc

PROPERTY = "C02"
LEVEL = "model_checking"
RULE = (
    "case = (language, placement context, literal spelling, configuration); the product context x "
    "spelling is enumerated completely per language and batched into files; non-trivial = the model "
    "predicts a report for the literal under at least one configuration of the menu; distinct by "
    "(language, context, spelling, configuration)"
)
ASSUMPTIONS = [
    "allowed_numbers is always given explicitly: the content of the built-in default list is not part of the statement (the documentation and the unit tests disagree about it, see DESIGN C02/C19)",
    "legacy octal literals (017) are outside the alphabet: TypeScript and strict-mode JavaScript reject them",
    "a negative number is judged on its literal token (Python/TS/Rust grammars have no negative literals); the alphabet only uses it where both readings agree",
    "the value named by a violation is parsed back from the message `Magic number <text>` and compared numerically",
]
BOUND = {
    "quick": "all contexts (incl. exempt ones) x all spellings per language, 5 configurations, allow-add/remove edges for every value; pairs of literals on one line for 6 contexts",
    "thorough": "adds max_small_integer in {1,3,10,20} for range/enumerate, the extended spelling group and all ordered context pairs on one line",
}
MIN_NONTRIVIAL = {"quick": 1500, "thorough": 3000}
DOC_DEFAULT = [-1, 0, 1, 2, 3, 4, 5, 10, 100, 1000]

# (spelling text, numeric value) per language group
PY_LITS = [("7", 7), ("42", 42), ("3600", 3600), ("3.14", 3.14), ("2.5e-3", 2.5e-3), ("1e6", 1e6), ("0x1F", 31), ("0o17", 15), ("0b1011", 11), ("10_000", 10000), ("5", 5), ("100", 100), ("443", 443), ("5000", 5000), ("0XBEEF", 48879), ("0B101", 5)]
TS_LITS = [("7", 7), ("42", 42), ("3600", 3600), ("3.14", 3.14), ("2.5e-3", 2.5e-3), ("1e6", 1e6), ("0x1F", 31), ("0o17", 15), ("0b1011", 11), ("10_000", 10000), ("5", 5), ("100", 100), ("443", 443), ("5000", 5000), (".75", 0.75), ("0xBEEF", 48879), ("7E-2", 0.07), ("6E3", 6000), ("0XE5", 229), ("0O17", 15), ("0B110", 6)]
RS_LITS = [("7", 7), ("42", 42), ("3600", 3600), ("3.14", 3.14), ("1e6", 1e6), ("0x1F", 31), ("0o17", 15), ("0b1011", 11), ("10_000", 10000), ("5", 5), ("100", 100), ("443", 443), ("42u8", 42), ("42_i32", 42), ("3.5f64", 3.5), ("1_024usize", 1024), ("0xBEEF", 48879)]
EXT_LITS = {"rs": [("0x1f32", 0x1F32), ("0xfu8", 15)], "ts": [("10n", 10), ("0X1e", 30), ("1E3", 1000.0)], "py": [("7j", None)]}

# context -> (lines with {L}, index of the literal line, exempt?)  {N} = unique function name
PY_CTX = {
    "assign": (["def {N}():", "    value = {L}", "    return value"], 1, False),
    "call-arg": (["def {N}():", "    return compute({L})"], 1, False),
    "kwarg": (["def {N}():", "    return compute(limit={L})"], 1, False),
    "return": (["def {N}():", "    return {L}"], 1, False),
    "default-param": (["def {N}(limit={L}):", "    return limit"], 0, False),
    "list": (["def {N}():", "    return [first, {L}]"], 1, False),
    "dict-value": (["def {N}():", "    return {{'k': {L}}}"], 1, False),
    "compare": (["def {N}(size):", "    if size > {L}:", "        return size"], 1, False),
    "arith": (["def {N}(size):", "    return size * {L}"], 1, False),
    "index": (["def {N}(items):", "    return items[{L}]"], 1, False),
    "nested-fn": (["def {N}():", "    def inner():", "        return {L}", "    return inner"], 2, False),
    "method": (["class K{N}:", "    def run(self):", "        return {L}"], 2, False),
    "lambda": (["def {N}():", "    g = lambda v: v + {L}", "    return g"], 1, False),
    "upper-constant": (["MAX_{U} = {L}"], 0, True),
    "upper-constant-private": (["_MAX_{U} = {L}"], 0, True),
    "upper-constant-dunder": (["__MAX_{U}_V2 = {L}"], 0, True),
    "upper-constant-digit": (["MAX2_{U} = {L}"], 0, True),
    "string-repeat": (["def {N}():", "    return '-' * {L}"], 1, True),
}
PY_RANGE = {
    "range": (["def {N}():", "    for i in range({L}):", "        step(i)"], 1),
    "enumerate": (["def {N}(items):", "    for i, x in enumerate(items, {L}):", "        step(i, x)"], 1),
}
PY_NONLIT = ["def {N}():\n    flag = True\n    other = False\n    return flag and other", "def {N}():\n    name = 'abc12345'\n    return name", "def {N}(item2, other3):\n    return item2 + other3", "def {N}():\n    # 98765 is only a comment\n    return None"]
TS_CTX = {
    "assign": (["function {N}() {{", "  const value = {L};", "  return value;", "}}"], 1, False),
    "call-arg": (["function {N}() {{", "  return compute({L});", "}}"], 1, False),
    "return": (["function {N}() {{", "  return {L};", "}}"], 1, False),
    "default-param": (["function {N}(limit = {L}) {{", "  return limit;", "}}"], 0, False),
    "array": (["function {N}() {{", "  return [first, {L}];", "}}"], 1, False),
    "object-value": (["function {N}() {{", "  return {{ k: {L} }};", "}}"], 1, False),
    "compare": (["function {N}(size) {{", "  if (size > {L}) {{", "    return size;", "  }}", "}}"], 1, False),
    "arith": (["function {N}(size) {{", "  return size * {L};", "}}"], 1, False),
    "index": (["function {N}(items) {{", "  return items[{L}];", "}}"], 1, False),
    "arrow": (["const {N} = (v) => v + {L};"], 0, False),
    "method": (["class K{N} {{", "  run() {{", "    return {L};", "  }}", "}}"], 2, False),
    "upper-constant": (["const MAX_{U} = {L};"], 0, True),
    "upper-constant-private": (["const _MAX_{U} = {L};"], 0, True),
    "upper-constant-digit": (["const MAX2_{U} = {L};"], 0, True),
    "upper-constant-export": (["export const LIMIT_{U} = {L};"], 0, True),
    "enum-member": (["enum E{N} {{", "  ACTIVE = {L},", "}}"], 1, True),
}
TS_NONLIT = ["function {N}() {{\n  const flag = true;\n  return flag && false;\n}}", "function {N}() {{\n  return 'abc12345';\n}}", "function {N}(item2, other3) {{\n  return item2 + other3;\n}}", "function {N}() {{\n  // 98765 is only a comment\n  return null;\n}}"]
RS_CTX = {
    "assign": (["fn {N}() -> f64 {{", "    let value = {L};", "    value as f64", "}}"], 1, False),
    "call-arg": (["fn {N}() {{", "    compute({L});", "}}"], 1, False),
    "return": (["fn {N}() -> f64 {{", "    return {L} as f64;", "}}"], 1, False),
    "array": (["fn {N}() {{", "    let items = [first, {L}];", "    consume(items);", "}}"], 1, False),
    "compare": (["fn {N}(size: f64) -> bool {{", "    size > {L} as f64", "}}"], 1, False),
    "arith": (["fn {N}(size: f64) -> f64 {{", "    size * ({L} as f64)", "}}"], 1, False),
    "closure": (["fn {N}() {{", "    let g = |v: f64| v + ({L} as f64);", "    consume(g);", "}}"], 1, False),
    "method": (["impl K{N} {{", "    fn run(&self) -> f64 {{", "        {L} as f64", "    }}", "}}"], 2, False),
    "const-item": (["const MAX_{U}: f64 = {L} as f64;"], 0, True),
    "static-item": (["static LIMIT_{U}: f64 = {L} as f64;"], 0, True),
    "test-fn": (["#[test]", "fn {N}() {{", "    assert_eq!(compute(), {L});", "}}"], 2, True),
    "cfg-test-mod": (["#[cfg(test)]", "mod tests_{N} {{", "    fn helper() -> f64 {{", "        {L} as f64", "    }}", "}}"], 3, True),
}
RS_NONLIT = ["fn {N}() -> bool {{\n    let flag = true;\n    flag && false\n}}", "fn {N}() -> &'static str {{\n    \"abc12345\"\n}}", "fn {N}(item2: i32, other3: i32) -> i32 {{\n    item2 + other3\n}}", "fn {N}() {{\n    // 98765 is only a comment\n}}"]

LANGS = {
    "py": (".py", PY_CTX, PY_LITS, PY_NONLIT),
    "ts": (".ts", TS_CTX, TS_LITS, TS_NONLIT),
    "js": (".js", {k: v for k, v in TS_CTX.items() if k != "enum-member"}, TS_LITS, TS_NONLIT),
    "rs": (".rs", RS_CTX, RS_LITS, RS_NONLIT),
}
MSG = re.compile(r"[Mm]agic number[:]?\s+([^\s,;)]+)")


def _value_of(text: str):
    t = text.strip().rstrip(".,;:")
    t = re.sub(r"_?(u8|u16|u32|u64|u128|usize|i8|i16|i32|i64|i128|isize|f32|f64)$", "", t) if not t.lower().startswith("0x") else re.sub(r"_(u8|u16|u32|u64|usize|i8|i16|i32|i64|isize)$", "", t)
    t = t.replace("_", "")
    try:
        v = ast.literal_eval(t)
        if isinstance(v, bool):
            return ("bool", v)
        if isinstance(v, (int, float)):
            return float(v)
    except (ValueError, SyntaxError):
        pass
    try:
        return float(t)
    except ValueError:
        return ("text", text)


def _build(lang: str, snippets):
    """snippets: list of (ctx, lit_text, value, lines, lit_idx, exempt) -> (text, expectations)"""
    out_lines, exp = [], []
    for i, (ctx, lit, val, lines, idx, exempt) in enumerate(snippets):
        name = f"fn{i}"
        base = len(out_lines)
        for j, ln in enumerate(lines):
            s = ln.replace("{N}", name).replace("{U}", name.upper()).replace("{L}", lit).replace("{{", "{").replace("}}", "}")
            if j == idx and "{L}" in ln:
                col = ln.replace("{N}", name).replace("{U}", name.upper()).replace("{{", "{").replace("}}", "}").index("{L}")
                exp.append({"ctx": ctx, "lit": lit, "value": val, "line": base + j + 1, "col": col, "exempt": exempt})
            out_lines.append(s)
        out_lines.append("")
    return "\n".join(out_lines) + "\n", exp


def _configs(tier):
    c = {
        "default-explicit": DOC_DEFAULT,
        "empty": [],
        "plus-42-3.14": DOC_DEFAULT + [42, 3.14],
        "minus-5-100": [x for x in DOC_DEFAULT if x not in (5, 100)],
    }
    return c


def items(tier: str, seed: int):
    out = []
    for lang, (ext, ctxs, lits, nonlit) in LANGS.items():
        ll = list(lits) + (EXT_LITS.get(lang if lang != "js" else "ts", []) if tier == "thorough" else [])
        combos = [(c, lt, v) for c in ctxs for (lt, v) in ll if not (c == "string-repeat" and not re.fullmatch(r"[0-9_]+|0[xob][0-9a-fA-F_]+", lt))]
        # exempt placements go into their own small files: ten or more UPPER_CASE constants would
        # turn the whole file into a (documented) constants-definition module and hide the rest
        plain = [c for c in combos if not ctxs[c[0]][2]]
        exempt = [c for c in combos if ctxs[c[0]][2]]
        for block in chunks(plain, 24):
            out.append({"kind": "single", "lang": lang, "combos": block})
        for block in chunks(exempt, 8):
            out.append({"kind": "single", "lang": lang, "combos": block})
        out.append({"kind": "nonliteral", "lang": lang})
        out.append({"kind": "pairs", "lang": lang, "all": tier == "thorough"})
    out.append({"kind": "range", "msi": [1, 3, 10, 20] if tier == "thorough" else [3, 10]})
    out.append({"kind": "filenames"})
    for lang in LANGS:
        out.append({"kind": "lang-section", "lang": lang})
    out.append({"kind": "mixed-languages"})
    return out


def _lint(lang, text, allowed, msi=None, fname=None):
    ext = LANGS[lang][0]
    cfg = {"magic-numbers": {}}
    if allowed is not None:
        cfg["magic-numbers"]["allowed_numbers"] = allowed
    if msi is not None:
        cfg["magic-numbers"]["max_small_integer"] = msi
    fname = fname or f"mod{ext}"
    root = project({fname: text, ".thailint.yaml": yaml_dump(cfg)})
    r = obs.cli_json(["magic-numbers", fname], root)
    vs = None if r["violations"] is None else [v for v in r["violations"] if v["rule_id"].startswith("magic-numbers")]
    remove(root)
    return vs, r


def _judge(acc, lang, text, exp, allowed_list, cfg_name, vs, r, msi=None):
    case = {"lang": lang, "text": text, "allowed_numbers": allowed_list, "config": cfg_name, "max_small_integer": msi}
    if vs is None:
        acc.fail({"check": "exit", "lang": lang, "mode": f"exit{r['exit_code']}"}, case, "exit 0/1", r["stderr"][-300:])
        return
    allowed = set(float(x) for x in (allowed_list if allowed_list is not None else DOC_DEFAULT))
    got = collections.defaultdict(list)
    for v in vs:
        m = MSG.search(v["message"])
        got[v["line"]].append((_value_of(m.group(1)) if m else ("nomatch", v["message"]), v["column"]))
    used = set()
    for e in exp:
        acc.case()
        acc.valid()
        should = (not e["exempt"]) and e["value"] is not None and float(e["value"]) not in allowed
        if should:
            acc.nt((lang, e["ctx"], e["lit"], cfg_name))
        here = got.get(e["line"], [])
        used.add(e["line"])
        sig_base = {"lang": lang, "ctx": e["ctx"], "config": "documented-default" if cfg_name == "documented-default" else "explicit"}
        lit_class = _lit_class(e["lit"])
        acc.outcome((lang, e["ctx"], lit_class, should, len(here)))
        if should and len(here) != 1:
            mode = "missing" if not here else "reported-more-than-once"
            if cfg_name == "documented-default" and not here:
                # one root cause per value: the built-in default list differs from the documented one
                sg = {"config": "documented-default", "mode": "value-not-in-documented-default-but-never-reported", "value": e["lit"]}
            else:
                sg = {**sig_base, "mode": mode, "literal": lit_class}
            acc.fail(sg, {**case, "expect": e}, {"reported_once_at_line": e["line"], "value": e["value"]}, here)
        elif not should and here:
            why = "exempt-context" if e["exempt"] else "allowed-value"
            acc.fail({**sig_base, "mode": f"reported-although-{why}", "literal": lit_class}, {**case, "expect": e}, "no report", here)
        elif should:
            val, col = here[0]
            if not (isinstance(val, float) and abs(val - float(e["value"])) < 1e-9 * max(1.0, abs(val))):
                acc.fail({**sig_base, "mode": "names-wrong-value", "literal": lit_class}, {**case, "expect": e}, e["value"], val)
    for line, lst in got.items():
        if line not in used:
            acc.fail({"check": "phantom", "lang": lang, "mode": "report-on-line-without-literal"}, case, "no report", {"line": line, "values": lst})


def _lit_class(lit: str) -> str:
    low = lit.lower()
    if low.startswith("0x") and re.search(r"(f32|f64|u8|u16|u32|i32)$", low):
        return "hex-ending-like-suffix"
    if low.startswith(("0x", "0o", "0b")):
        return low[:2] + "-int"
    if re.search(r"(u8|u16|u32|u64|usize|i8|i16|i32|i64|isize|f32|f64)$", low):
        return "type-suffixed"
    if low.endswith("n"):
        return "bigint"
    if low.endswith("j"):
        return "complex"
    if re.fullmatch(r"0\d+", low):
        return "legacy-octal"
    if "_" in low:
        return "underscored"
    if "e" in low:
        return "exponent"
    if low.startswith("."):
        return "leading-dot-float"
    if "." in low:
        return "float"
    return "int"


def run_item(item) -> Acc:
    acc = Acc()
    k = item["kind"]
    if k == "single":
        lang = item["lang"]
        ext, ctxs, _l, _n = LANGS[lang]
        snippets = [(c, lt, v, ctxs[c][0], ctxs[c][1], ctxs[c][2]) for (c, lt, v) in item["combos"]]
        text, exp = _build(lang, snippets)
        results = {}
        for cname, allowed in _configs("quick").items():
            vs, r = _lint(lang, text, allowed)
            results[cname] = vs
            _judge(acc, lang, text, exp, allowed, cname, vs, r)
        # allow-add / allow-remove edges on the implementation's own output
        base = results.get("default-explicit")
        if base is not None:
            for v in sorted({float(e["value"]) for e in exp if e["value"] is not None}):
                inlist = v in set(map(float, DOC_DEFAULT))
                new_allowed = [x for x in DOC_DEFAULT if float(x) != v] if inlist else DOC_DEFAULT + [int(v) if v == int(v) else v]
                vs2, r2 = _lint(lang, text, new_allowed)
                acc.case()
                acc.edge()
                if vs2 is None:
                    continue
                lines_v = {e["line"] for e in exp if e["value"] is not None and float(e["value"]) == v}
                b = collections.Counter(x["line"] for x in base)
                a = collections.Counter(x["line"] for x in vs2)
                diff_lines = {ln for ln in set(a) | set(b) if a[ln] != b[ln]}
                if not diff_lines <= lines_v:
                    acc.fail({"check": "allow-edge", "lang": lang, "mode": "changes-other-values", "direction": "remove" if inlist else "add"}, {"lang": lang, "text": text, "value": v}, sorted(lines_v), sorted(diff_lines), f"changing allowed_numbers by {v} changed violations of other literals")
        acc.sample({"lang": lang, "file": text[:400], "literals": [(e["ctx"], e["lit"], e["line"]) for e in exp[:5]]})
    elif k == "nonliteral":
        lang = item["lang"]
        text = "\n\n".join(s.replace("{N}", f"fn{i}").replace("{{", "{").replace("}}", "}") for i, s in enumerate(LANGS[lang][3])) + "\n"
        for cname, allowed in (("empty", []), ("default-explicit", DOC_DEFAULT)):
            vs, r = _lint(lang, text, allowed)
            acc.case()
            acc.valid()
            acc.nt((lang, "nonliteral", cname))
            if vs is None:
                acc.fail({"check": "exit", "lang": lang, "mode": f"exit{r['exit_code']}"}, {"lang": lang, "text": text, "allowed_numbers": allowed}, "exit 0/1", r["stderr"][-200:])
            for v in vs or []:
                src_line = text.split("\n")[v["line"] - 1] if 0 < v["line"] <= text.count("\n") + 1 else ""
                kind = "boolean" if re.search(r"\b(True|False|true|false)\b", src_line) else ("string-digits" if "abc12345" in src_line else ("identifier-digits" if "item2" in src_line else ("comment" if "98765" in src_line else "other")))
                acc.fail({"check": "non-literal-reported", "lang": lang, "what": kind}, {"lang": lang, "text": text, "allowed_numbers": allowed}, "nothing that is not a numeric literal is reported", {"line": v["line"], "message": v["message"]})
    elif k == "pairs":
        lang = item["lang"]
        ext, ctxs, lits, _n = LANGS[lang]
        two = {
            "py": ["def {N}():", "    return compute({A}, {B})"],
            "ts": ["function {N}() {{", "  return compute({A}, {B});", "}}"],
            "js": ["function {N}() {{", "  return compute({A}, {B});", "}}"],
            "rs": ["fn {N}() {{", "    compute({A}, {B});", "}}"],
        }[lang]
        pool = [("42", 42), ("7", 7), ("3.14", 3.14), ("5", 5), ("0x1F", 31)]
        if item.get("all"):
            pool = [(lt, v) for (lt, v) in lits if v is not None]
        out_lines, exp = [], []
        i = 0
        for a in pool:
            for b in pool:
                base = len(out_lines)
                for j, ln in enumerate(two):
                    out_lines.append(ln.replace("{N}", f"fn{i}").replace("{A}", a[0]).replace("{B}", b[0]).replace("{{", "{").replace("}}", "}"))
                exp.append((base + 2, [a[1], b[1]]))
                out_lines.append("")
                i += 1
        text = "\n".join(out_lines) + "\n"
        vs, r = _lint(lang, text, DOC_DEFAULT)
        allowed = set(map(float, DOC_DEFAULT))
        got = collections.defaultdict(list)
        for v in vs or []:
            m = MSG.search(v["message"])
            got[v["line"]].append(_value_of(m.group(1)) if m else None)
        for line, vals in exp:
            acc.case()
            acc.valid()
            want = sorted(float(x) for x in vals if float(x) not in allowed)
            if want:
                acc.nt((lang, "pair", line))
            g = sorted(x for x in got.get(line, []) if isinstance(x, float))
            if g != want:
                acc.fail({"check": "two-literals-one-line", "lang": lang, "mode": "same-value-twice" if len(set(vals)) == 1 else "differs"}, {"lang": lang, "text": text, "line": line, "allowed_numbers": DOC_DEFAULT}, want, got.get(line, []), "each literal is reported exactly once, on its line, naming its value")
    elif k == "range":
        for msi in item["msi"]:
            snippets = []
            for ctx, (lines, idx) in PY_RANGE.items():
                for n in (msi - 1, msi, msi + 1, msi + 7):
                    if n < 1:
                        continue
                    snippets.append((f"{ctx}@{n}", str(n), n, lines, idx, n <= msi))
            text, exp = _build("py", snippets)
            allowed = [0, 1]
            vs, r = _lint("py", text, allowed, msi=msi)
            _judge(acc, "py", text, exp, allowed, f"msi={msi}", vs, r, msi=msi)
    elif k == "lang-section":
        # a per-language section overrides the top-level value for files of that language and only
        # for them; oracle (no documentation needed): section L over any top-level list T behaves
        # exactly like top-level L alone, for every L of a shrinking chain down to the empty list;
        # a section for ANOTHER language changes nothing
        lang = item["lang"]
        key = {"py": "python", "ts": "typescript", "js": "javascript", "rs": "rust"}[lang]
        other = "rust" if lang != "rs" else "python"
        ext, ctxs, _l, _n = LANGS[lang]
        pool = [("7", 7), ("42", 42), ("5", 5), ("100", 100), ("3600", 3600), ("3.14", 3.14)]
        snippets = [(c, lt, v, ctxs[c][0], ctxs[c][1], ctxs[c][2]) for c in ("return", "call-arg") for (lt, v) in pool]
        text, exp = _build(lang, snippets)
        fname = f"mod{ext}"
        chain = [DOC_DEFAULT + [42, 3.14], DOC_DEFAULT, [5, 100, 7], [5], []]

        def raw(section):
            root = project({fname: text, ".thailint.yaml": yaml_dump({"magic-numbers": section})})
            r = obs.cli_json(["magic-numbers", fname], root)
            remove(root)
            return None if r["violations"] is None else sorted((v["line"], v["message"]) for v in r["violations"] if v["rule_id"].startswith("magic-numbers"))

        for lst in chain:
            ref = raw({"allowed_numbers": lst})
            acc.case()
            for tname, top in (("top-empty", []), ("top-default", DOC_DEFAULT), ("top-absent", None)):
                section = {key: {"allowed_numbers": lst}}
                if top is not None:
                    section["allowed_numbers"] = top
                got = raw(section)
                acc.case()
                acc.edge()
                acc.valid()
                acc.nt((lang, "lang-section", len(lst), tname))
                if got != ref:
                    acc.fail({"check": "language-section", "lang": lang, "mode": "section-differs-from-same-list-at-top-level", "list": "empty" if not lst else "non-empty"}, {"lang": lang, "text": text, "section": section}, ref and ref[:4], got and got[:4], f"magic-numbers.{key}.allowed_numbers={lst} must act like allowed_numbers={lst}")
                # a section of another language must not matter
                if top is not None:
                    got2 = raw({"allowed_numbers": top, other: {"allowed_numbers": lst}})
                    ref2 = raw({"allowed_numbers": top})
                    acc.case(2)
                    acc.edge()
                    if got2 != ref2:
                        acc.fail({"check": "language-section", "lang": lang, "mode": "other-language-section-applies"}, {"lang": lang, "text": text, "section": {"allowed_numbers": top, other: {"allowed_numbers": lst}}}, ref2 and ref2[:4], got2 and got2[:4])
        if lang == "py":
            rtext, _e = _build("py", [(f"range@{n}", str(n), n, PY_RANGE["range"][0], PY_RANGE["range"][1], False) for n in (2, 3, 4, 9, 10, 11)])
            for msi in (10, 3, 1):
                def rawr(section):
                    root = project({"mod.py": rtext, ".thailint.yaml": yaml_dump({"magic-numbers": section})})
                    r = obs.cli_json(["magic-numbers", "mod.py"], root)
                    remove(root)
                    return None if r["violations"] is None else sorted((v["line"], v["message"]) for v in r["violations"])
                ref = rawr({"allowed_numbers": [0], "max_small_integer": msi})
                # a python block that does not mention max_small_integer: the top-level value applies
                got0 = rawr({"allowed_numbers": [0], "max_small_integer": msi, "python": {"allowed_numbers": [0]}})
                acc.case()
                acc.edge()
                if got0 != ref:
                    acc.fail({"check": "language-section", "lang": "py", "mode": "top-level-max_small_integer-lost-when-a-block-exists"}, {"lang": "py", "text": rtext, "section": {"allowed_numbers": [0], "max_small_integer": msi, "python": {"allowed_numbers": [0]}}}, ref, got0)
                for top in (1, 20):
                    got = rawr({"allowed_numbers": [0], "max_small_integer": top, "python": {"max_small_integer": msi}})
                    acc.case(2)
                    acc.edge()
                    acc.valid()
                    acc.nt(("py", "lang-section-msi", msi, top))
                    if got != ref:
                        acc.fail({"check": "language-section", "lang": "py", "mode": "max_small_integer-section-differs-from-top-level"}, {"lang": "py", "text": rtext, "section": {"max_small_integer": top, "python": {"max_small_integer": msi}}}, ref, got)
    elif k == "mixed-languages":
        # one run over files of all four languages, each language with its own allowed_numbers:
        # every file is judged with ITS language's list, in whatever order the files are given
        import itertools  # noqa: PLC0415

        names = {"py": "mod.py", "ts": "mod.ts", "js": "mod.js", "rs": "mod.rs"}
        key = {"py": "python", "ts": "typescript", "js": "javascript", "rs": "rust"}
        vals = {"py": 41, "ts": 42, "js": 43, "rs": 44}
        texts = {}
        for lang in LANGS:
            ctxs = LANGS[lang][1]
            snippets = [("return", str(v), v, ctxs["return"][0], ctxs["return"][1], False) for v in vals.values()]
            texts[lang], _e = _build(lang, snippets)
        section = {"allowed_numbers": [0, 1]}
        for lang in LANGS:
            section[key[lang]] = {"allowed_numbers": [vals[lang]]}
        files = {names[lg]: texts[lg] for lg in LANGS}
        for order in [*itertools.permutations(list(LANGS)), ["."]]:
            root = project({**files, ".thailint.yaml": yaml_dump({"magic-numbers": section})})
            r = obs.cli_json(["magic-numbers", *(["."] if order == ["."] else [names[lg] for lg in order])], root)
            remove(root)
            acc.case()
            acc.edge()
            acc.valid()
            acc.nt(("mixed", tuple(order)))
            for lang in LANGS:
                got = sorted(_value_of(MSG.search(v["message"]).group(1)) for v in (r["violations"] or []) if v["file"].endswith(names[lang]) and MSG.search(v["message"]))
                want = sorted(float(v) for lg, v in vals.items() if lg != lang)
                if r["violations"] is None or got != want:
                    acc.fail({"check": "language-section", "lang": lang, "mode": "file-judged-with-another-languages-list-in-a-mixed-run"}, {"lang": lang, "text": texts[lang], "section": section, "mixed_files": files, "order": list(order)}, want, got)
    elif k == "filenames":
        body = {"py": "def f():\n    return 42\n", "ts": "function f() {\n  return 42;\n}\n"}
        names = {
            "py": [("test_calc.py", True), ("calc_test.py", True), ("calc.py", False), ("contest.py", False), ("constants.py", True), ("attest_data.py", False), ("tests/helpers.py", False), ("latest/calc.py", False), ("src/contest/calc.py", False)],
            "ts": [("calc.test.ts", True), ("calc.spec.ts", True), ("calc.ts", False), ("contest.ts", False), ("latest_version.ts", False), ("latest/calc.ts", False), ("src/contest/calc.ts", False), ("src/unittest/calc.ts", False)],
        }
        for lang, lst in names.items():
            for fname, exempt in lst:
                vs, r = _lint(lang, body[lang], DOC_DEFAULT, fname=fname)
                acc.case()
                acc.valid()
                acc.nt((lang, fname))
                n = len(vs or [])
                if (n == 0) != exempt:
                    acc.fail({"check": "file-name-exemption", "lang": lang, "file": fname, "mode": "exempt-but-reported" if exempt else "not-exempt-but-silent"}, {"lang": lang, "text": body[lang], "fname": fname, "allowed_numbers": DOC_DEFAULT}, {"reported": not exempt}, {"violations": n})
    return acc


def replay_case(case) -> list[dict]:
    acc = Acc()
    lang = case["lang"]
    fname = case.get("fname") or f"mod{LANGS[lang][0]}"
    cfg = {"magic-numbers": {}}
    if case.get("allowed_numbers") is not None:
        cfg["magic-numbers"]["allowed_numbers"] = case["allowed_numbers"]
    if case.get("max_small_integer"):
        cfg["magic-numbers"]["max_small_integer"] = case["max_small_integer"]
    if case.get("mixed_files"):
        a = run_item({"kind": "mixed-languages"})
        return [f for f in a.failures if f["case"].get("order") == case.get("order") and f["case"].get("lang") == case.get("lang")]
    if case.get("section"):
        cfg = {"magic-numbers": case["section"]}
        flat = {k_: v for k_, v in case["section"].items() if not isinstance(v, dict)}
        okey, over = [(k_, v) for k_, v in case["section"].items() if isinstance(v, dict)][0]
        if okey != {"py": "python", "ts": "typescript", "js": "javascript", "rs": "rust"}[lang]:
            over = {}  # a section of another language: must equal the top-level values alone
        ra = project({fname: case["text"], ".thailint.yaml": yaml_dump(cfg)})
        rb = project({fname: case["text"], ".thailint.yaml": yaml_dump({"magic-numbers": {**flat, **over}})})
        a = obs.cli_subprocess(["magic-numbers", "--format", "json", fname], ra)
        b = obs.cli_subprocess(["magic-numbers", "--format", "json", fname], rb)
        la = sorted((v["line"], v["message"]) for v in obs.parse_json_out(a["stdout"]) or [])
        lb = sorted((v["line"], v["message"]) for v in obs.parse_json_out(b["stdout"]) or [])
        print(f"config A: {cfg}\n -> {len(la)} violations\nconfig B (same values at top level): {{'magic-numbers': {{**flat, **over}}}}\n -> {len(lb)} violations")
        remove(ra)
        remove(rb)
        if la != lb:
            acc.fail({"replayed": True}, case, lb[:4], la[:4])
        return acc.failures
    root = project({fname: case["text"], ".thailint.yaml": yaml_dump(cfg)})
    r = obs.cli_subprocess(["magic-numbers", "--format", "json", fname], root)
    e = case.get("expect")
    print(f"config: {cfg}\n$ thailint magic-numbers {fname}\nexit={r['exit_code']}")
    vs = obs.parse_json_out(r["stdout"]) or []
    if e:
        src = case["text"].split("\n")[e["line"] - 1]
        print(f"literal {e['lit']!r} (value {e['value']}, context {e['ctx']}, exempt={e['exempt']}) at line {e['line']}: {src!r}")
        here = [v for v in vs if v["line"] == e["line"]]
        print("reported on that line:", [(v["column"], v["message"]) for v in here])
        allowed = set(float(x) for x in (case.get("allowed_numbers") if case.get("allowed_numbers") is not None else DOC_DEFAULT))
        should = (not e["exempt"]) and e["value"] is not None and float(e["value"]) not in allowed
        if should != (len(here) == 1):
            acc.fail({"replayed": True}, case, {"reported": should}, len(here))
    else:
        print(r["stdout"][:1500])
        if vs:
            acc.fail({"replayed": True}, case, "see above", len(vs))
    remove(root)
    return acc.failures
