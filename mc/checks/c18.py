"""C18 — file-placement verdicts follow the allow/deny rules exactly.

E-input: every rule set over a small alphabet of directory prefixes and regex patterns is run
(one real `thailint file-placement` invocation per rule set) against every path of a fixed tree
and compared, per file, with a reference model written from the property statement.
"""

from __future__ import annotations

import itertools
import json
import re

from mc.core import obs
from mc.core.enum import chunks
from mc.core.isolate import project, remove, yaml_dump
from mc.core.runner import Acc

PROPERTY = "C18"
LEVEL = "model_checking"
RULE = (
    "case = (rule set, path of the fixed tree); rule sets enumerated exhaustively over directory "
    "prefixes {src, src/api, tests} x allow/deny pattern subsets x global_deny / global_patterns "
    "variants x entry spelling x carrier; non-trivial = the model predicts a report for that file "
    "or the file is covered by a directory rule; distinct by (rule set, path)"
)
ASSUMPTIONS = [
    "patterns are matched with search semantics against the project-relative POSIX path (all lower case in the alphabet, so case sensitivity is not exercised)",
    "directory prefix `d` contains a file iff the path starts with `d/` (directory ancestor); the undocumented `/` root rule is outside the alphabet",
    "reported/not-reported per file is compared (the number of violation records per file is not constrained by the statement)",
]
BOUND = {
    "quick": "directories src and src/api: all 21x21 rule variants; tests: {absent, 1 variant}; 8 global variants; 14 paths; spelling and carrier variants on a covering subset; invalid regex in every position",
    "thorough": "all three directories: 21^3 rule variants x 8 global variants; 14 paths; spelling/carrier variants; invalid regex in every position",
}
MIN_NONTRIVIAL = {"quick": 20000, "thorough": 200000}

TREE = [
    "src/a.py",
    "src/test_a.py",
    "src/x.tmp",
    "src/api/v_api.py",
    "src/api/b.py",
    "src/api/test_b.py",
    "src/api/y.tmp",
    "src2/c.py",
    "src2/z.tmp",
    "tests/test_t.py",
    "tests/helper.py",
    "root.py",
    "root.tmp",
    "srcfile.py",
]
ALLOW = [r".*\.py$", r"^src/.*", r"test_.*"]
DENY = [r".*\.tmp$", r"test_.*\.py$", r".*_api\.py$"]


def _dir_variants():
    allows = [None, []] + [[a] for a in ALLOW] + [list(ALLOW)]
    denies = [None] + [[d] for d in DENY]
    out = [None]
    for a in allows:
        for d in denies:
            if a is None and d is None:
                continue
            r = {}
            if a is not None:
                r["allow"] = a
            if d is not None:
                r["deny"] = d
            out.append(r)
    return out


GLOBALS = [
    {},
    {"global_patterns": {"allow": []}},
    {"global_deny": [r".*\.tmp$"]},
    {"global_deny": [r"^src2/"]},
    {"global_patterns": {"deny": [r".*\.tmp$"]}},
    {"global_patterns": {"allow": [r".*\.py$"]}},
    {"global_patterns": {"allow": [r"^src/.*", r"^tests/.*"], "deny": [r"test_.*\.py$"]}},
    {"global_deny": [r"^root"], "global_patterns": {"allow": [r".*\.py$"]}},
    {"global_patterns": {"deny": [r"^src/"]}},
]


# ----------------------------------------------------------------------------- model


def _pat(entry):
    return entry if isinstance(entry, str) else entry["pattern"]


def model_reported(path: str, cfg: dict) -> bool:
    dirs = cfg.get("directories") or {}
    best = None
    for d in dirs:
        if path.startswith(d.rstrip("/") + "/"):
            if best is None or len(d.split("/")) > len(best.split("/")):
                best = d
    if best is not None:
        rule = dirs[best]
        if any(re.search(_pat(p), path) for p in rule.get("deny", [])):
            return True
        if "allow" in rule and not any(re.search(_pat(p), path) for p in rule["allow"]):
            return True
        return False
    if any(re.search(_pat(p), path) for p in cfg.get("global_deny", [])):
        return True
    gp = cfg.get("global_patterns") or {}
    if any(re.search(_pat(p), path) for p in gp.get("deny", [])):
        return True
    if "allow" in gp and not any(re.search(_pat(p), path) for p in gp["allow"]):
        return True
    return False


def global_hit(path: str, cfg: dict) -> bool:
    """Would the global rules report this path if they were applied to it?"""
    return model_reported(path, {k: v for k, v in cfg.items() if k != "directories"})


def covered(path: str, cfg: dict) -> bool:
    return any(path.startswith(d.rstrip("/") + "/") for d in (cfg.get("directories") or {}))


# ----------------------------------------------------------------------------- items


def _mk(src, api, tests, glob):
    cfg = {}
    dirs = {}
    if src is not None:
        dirs["src"] = src
    if api is not None:
        dirs["src/api"] = api
    if tests is not None:
        dirs["tests"] = tests
    if dirs:
        cfg["directories"] = dirs
    cfg.update(glob)
    return cfg


def items(tier: str, seed: int):
    dv = _dir_variants()
    out = []
    if tier == "quick":
        tests_opts = [None]
    else:
        tests_opts = dv
    cfgs = (
        _mk(s, a, t, g)
        for s in dv
        for a in dv
        for t in tests_opts
        for g in GLOBALS
    )
    for block in chunks(cfgs, 60):
        out.append({"kind": "sets", "cfgs": block})
    out.append({"kind": "variants"})
    out.append({"kind": "invalid"})
    return out


# ----------------------------------------------------------------------------- execution


def _files():
    return {p: "x = 1\n" for p in TREE}


def _classify(path, cfg, got, exp):
    dirs = cfg.get("directories") or {}
    cov = covered(path, cfg)
    # which mechanism could explain the deviation (for a stable signature)
    prefix_hit = [d for d in dirs if path.startswith(d) and not path.startswith(d + "/")]
    has_glob = bool(cfg.get("global_deny") or cfg.get("global_patterns"))
    if got and not exp:
        if prefix_hit:
            why = "reported under a directory rule whose key is only a string prefix of the path"
            site = "prefix-not-ancestor"
        elif cov and has_glob:
            why = "file satisfying its directory rule is reported through a global rule"
            site = "global-applied-to-covered"
        else:
            site = "extra"
            why = "reported although every applicable rule is satisfied"
    else:
        if prefix_hit:
            site = "prefix-not-ancestor"
            why = "a directory rule whose key is only a string prefix shadowed the applicable rule"
        elif cov:
            site = "missing-covered"
            why = "file violating its most specific directory rule is not reported"
        else:
            site = "missing-uncovered"
            why = "file violating the global rules is not reported"
    return {"site": site, "mode": "extra" if got else "missing"}, why


def _run_cfg(acc: Acc, root, cfg: dict, carrier: str = "config", front: str = "inproc", tag: str = "", per_file: bool = True):
    """One real CLI run for the rule set; per-file comparison with the model."""
    if carrier == "config":
        (root / "cfg.yaml").write_text(yaml_dump({"file-placement": cfg}))
        argv = ["file-placement", "--config", "cfg.yaml", "."]
    elif carrier == "config-json":
        (root / "cfg.json").write_text(json.dumps({"file-placement": cfg}))
        argv = ["file-placement", "--config", "cfg.json", "."]
    elif carrier == "rules":
        argv = ["file-placement", "--rules", json.dumps({"file-placement": cfg}), "."]
    elif carrier == "auto":
        (root / ".thailint.yaml").write_text(yaml_dump({"file-placement": cfg}))
        argv = ["file-placement", "."]
    elif carrier == "abs-target":
        (root / "cfg.yaml").write_text(yaml_dump({"file-placement": cfg}))
        argv = ["file-placement", "--config", str(root / "cfg.yaml"), str(root)]
    else:
        raise ValueError(carrier)
    r = obs.cli_json(argv, root, sub=(front == "subprocess"))
    for extra in ("cfg.yaml", "cfg.json", ".thailint.yaml"):
        (root / extra).unlink(missing_ok=True)
    if r["violations"] is None:
        acc.fail(
            {"site": "run", "mode": "exit", "carrier": carrier},
            {"cfg": cfg, "carrier": carrier, "front": front},
            "exit 0/1 with JSON",
            {"exit": r["exit_code"], "stderr": r["stderr"][-400:]},
        )
        return None
    reported = set()
    for v in r["violations"]:
        if v["rule_id"].startswith("file-placement"):
            reported.add(obs.relfile(v["file"], root, root))
    exp_any = False
    for p in (TREE if per_file else []):
        acc.case()
        acc.valid()
        exp = model_reported(p, cfg)
        got = p in reported
        exp_any = exp_any or exp
        if covered(p, cfg) and not exp and global_hit(p, cfg):
            # The documentation is contradictory about global rules on files covered by a
            # directory rule ("Directory overrides global" vs "global deny patterns apply
            # everywhere"); that combination is outside the alphabet (DESIGN C18).
            acc.stat("skipped_global_rule_on_covered_file")
            continue
        if exp or covered(p, cfg):
            acc.nt((cfg, p, carrier, front))
        acc.outcome((exp, got))
        if exp != got:
            sig, why = _classify(p, cfg, got, exp)
            acc.fail(sig, {"cfg": cfg, "path": p, "carrier": carrier, "front": front}, {"reported": exp}, {"reported": got}, why + tag)
    unknown = reported - set(TREE) - {"cfg.yaml", "cfg.json", ".thailint.yaml"}
    for u in sorted(unknown):
        acc.fail({"site": "phantom-file", "mode": "extra"}, {"cfg": cfg, "carrier": carrier}, "only files of the tree", u)
    exp_exit = 1 if r["violations"] else 0
    # exit code must agree with what was actually reported (C06 owns the general statement)
    if (r["exit_code"] == 1) != bool(r["violations"]):
        acc.fail({"site": "run", "mode": "exit-vs-output"}, {"cfg": cfg, "carrier": carrier}, exp_exit, r["exit_code"])
    return reported & set(TREE)


def _respell(cfg, how: str):
    """Same rule set with deny entries in the documented mapping spellings."""
    def conv(entries):
        if how == "reason":
            return [{"pattern": e, "reason": "because"} for e in entries]
        return [{"pattern": e, "message": "because"} for e in entries]

    c = json.loads(json.dumps(cfg))
    if how == "allow-mapping":
        # configuration.md documents {pattern, message} entries for global_patterns.allow too
        if "allow" in (c.get("global_patterns") or {}):
            c["global_patterns"]["allow"] = [{"pattern": e, "message": "ok"} for e in c["global_patterns"]["allow"]]
        return c
    for rule in (c.get("directories") or {}).values():
        if "deny" in rule:
            rule["deny"] = conv(rule["deny"])
    if "global_deny" in c:
        c["global_deny"] = conv(c["global_deny"])
    if "deny" in (c.get("global_patterns") or {}):
        c["global_patterns"]["deny"] = conv(c["global_patterns"]["deny"])
    return c


def _covering_cfgs():
    dv = _dir_variants()
    sel = []
    # every directory variant once in each position, every global variant once
    for v in dv[1:]:
        sel.append(_mk(v, None, None, {}))
        sel.append(_mk({"allow": [r".*\.py$"]}, v, None, {}))
        sel.append(_mk(None, None, v, {}))
    for v in dv[1:6]:
        for w in dv[6:11]:
            sel.append(_mk(v, w, None, {}))
            sel.append(_mk(v, w, w, {}))
    for g in GLOBALS[1:]:
        sel.append(_mk(None, None, None, g))
        sel.append(_mk({"allow": [r".*\.py$"], "deny": [r"test_.*\.py$"]}, None, None, g))
    return sel


def run_item(item) -> Acc:
    acc = Acc()
    k = item["kind"]
    root = project(_files())
    if k == "sets":
        for cfg in item["cfgs"]:
            _run_cfg(acc, root, cfg)
        acc.sample({"cfg": item["cfgs"][-1], "tree": TREE, "model": {p: model_reported(p, item["cfgs"][-1]) for p in TREE}})
    elif k == "variants":
        for cfg in _covering_cfgs():
            base = _run_cfg(acc, root, cfg)
            for carrier in ("config-json", "rules", "auto", "abs-target"):
                got = _run_cfg(acc, root, cfg, carrier=carrier)
                acc.edge()
                if got is not None and base is not None and got != base:
                    acc.fail(
                        {"site": "carrier-edge", "carrier": carrier, "mode": "differs"},
                        {"cfg": cfg, "carrier": carrier},
                        sorted(base),
                        sorted(got),
                        "same rule set, different carrier / target spelling",
                    )
            # directory keys with a trailing slash, and every listing order of the keys
            dirs = cfg.get("directories") or {}
            if dirs:
                import itertools as _it  # noqa: PLC0415

                spellings = [{k: k for k in dirs}, {k: k + "/" for k in dirs}]
                if len(dirs) > 1:
                    first = sorted(dirs)[0]
                    spellings.append({k: (k + "/" if k == first else k) for k in dirs})
                    spellings.append({k: (k if k == first else k + "/") for k in dirs})
                for sp in spellings:
                    for order in _it.permutations(sorted(dirs)):
                        c2 = {**cfg, "directories": {sp[k]: dirs[k] for k in order}}
                        if c2 == cfg and list(c2["directories"]) == list(dirs):
                            continue
                        got = _run_cfg(acc, root, c2, per_file=False)
                        acc.edge()
                        if got is not None and base is not None and got != base:
                            acc.fail({"site": "key-spelling-or-order-edge", "mode": "differs", "trailing_slash": any(v.endswith("/") for v in sp.values()), "reordered": list(order) != sorted(dirs)}, {"cfg": c2}, sorted(base), sorted(got), "same rules, directory keys respelled with a trailing slash and/or listed in another order")
            for how in ("reason", "message", "allow-mapping"):
                c2 = _respell(cfg, how)
                if c2 == cfg:
                    continue
                got = _run_cfg(acc, root, c2, tag=f" [deny entries as {{pattern,{how}}}]")
                acc.edge()
                if got is not None and base is not None and got != base:
                    acc.fail({"site": "spelling-edge", "spelling": how, "mode": "differs"}, {"cfg": c2}, sorted(base), sorted(got))
        # fresh-process conformance on a covering subset
        for cfg in _covering_cfgs()[::6]:
            _run_cfg(acc, root, cfg, front="subprocess")
    elif k == "invalid":
        bad = "([unclosed"
        positions = {
            "dir-allow": {"directories": {"src": {"allow": [bad]}}},
            "dir-deny": {"directories": {"src": {"deny": [bad]}}},
            "dir-deny-mapping": {"directories": {"src": {"deny": [{"pattern": bad, "reason": "r"}]}}},
            "global_deny": {"global_deny": [bad]},
            "global_deny-mapping": {"global_deny": [{"pattern": bad, "reason": "r"}]},
            "global_patterns-deny": {"global_patterns": {"deny": [bad]}},
            "global_patterns-allow": {"global_patterns": {"allow": [bad]}},
        }
        for pos, cfg in positions.items():
            for carrier in ("config", "rules", "auto"):
                for front in ("inproc", "subprocess"):
                    if front == "subprocess" and carrier != "config":
                        continue
                    acc.case()
                    acc.valid()
                    acc.nt(("invalid", pos, carrier, front))
                    if carrier == "config":
                        (root / "cfg.yaml").write_text(yaml_dump({"file-placement": cfg}))
                        argv = ["file-placement", "--config", "cfg.yaml", "."]
                    elif carrier == "rules":
                        argv = ["file-placement", "--rules", json.dumps({"file-placement": cfg}), "."]
                    else:
                        (root / ".thailint.yaml").write_text(yaml_dump({"file-placement": cfg}))
                        argv = ["file-placement", "."]
                    r = obs.cli_json(argv, root, sub=(front == "subprocess"))
                    for extra in ("cfg.yaml", ".thailint.yaml"):
                        (root / extra).unlink(missing_ok=True)
                    acc.outcome(("invalid", r["exit_code"]))
                    if r["exit_code"] != 2:
                        acc.fail(
                            {"site": "invalid-regex", "position": pos, "carrier": carrier, "mode": f"exit{r['exit_code']}"},
                            {"cfg": cfg, "carrier": carrier, "front": front, "invalid": True},
                            {"exit": 2},
                            {"exit": r["exit_code"], "stdout": r["stdout"][:200], "stderr": r["stderr"][-300:]},
                            "a syntactically invalid pattern must be rejected as a configuration error",
                        )
    remove(root)
    return acc


def replay_case(case) -> list[dict]:
    acc = Acc()
    root = project(_files())
    cfg = case["cfg"]
    print("rule set:\n" + yaml_dump({"file-placement": cfg}))
    if case.get("invalid"):
        (root / "cfg.yaml").write_text(yaml_dump({"file-placement": cfg}))
        r = obs.cli_subprocess(["file-placement", "--config", "cfg.yaml", "."], root)
        print(f"exit={r['exit_code']} (expected 2)\n{r['stdout'][:500]}\n{r['stderr'][-500:]}")
        if r["exit_code"] != 2:
            acc.fail({"site": "invalid-regex"}, case, {"exit": 2}, {"exit": r["exit_code"]})
    else:
        got = _run_cfg(acc, root, cfg, carrier=case.get("carrier", "config"), front="subprocess")
        print("reported by the real CLI:", sorted(got or []))
        print("model:", sorted(p for p in TREE if model_reported(p, cfg)))
        acc.failures = [f for f in acc.failures if "path" not in case or f["case"].get("path") == case["path"]]
    remove(root)
    return acc.failures
