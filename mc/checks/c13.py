"""C13 — meaning-preserving edits leave the findings unchanged up to line shift.

E-input with an edge oracle: for every documented violating example of every linter and language,
every edit of the menu is applied at EVERY admissible position (blank line / comment line at each
line boundary outside multi-line tokens, trailing whitespace on each line, consistent re-indent,
LF<->CRLF, BOM, unrelated code appended at EOF, consistent local renaming for name-insensitive
rules); the run after the edit must equal the run before it with line' = line + #lines inserted
above.
"""

from __future__ import annotations

import io
import re
import tokenize

from mc.catalog import load
from mc.core import obs
from mc.core.isolate import project, remove, yaml_dump
from mc.core.runner import Acc

PROPERTY = "C13"
LEVEL = "model_checking"
RULE = (
    "case = (linter, language, documented example, edit kind, position); all positions of all edit "
    "kinds are enumerated; non-trivial = the unedited example has at least one violation of the "
    "linter; distinct by the whole tuple"
)
ASSUMPTIONS = [
    "admissible positions: line boundaries not inside a multi-line string / template literal / block comment; for header-sensitive linters (file-header, lazy-ignores) only positions below the header",
    "messages are compared except for cross-file linters (dry, stringly-typed), whose messages quote line ranges of other locations",
    "re-indentation is applied only to files whose indentation is a clean multiple of four spaces and that contain no multi-line tokens",
]
BOUND = {
    "quick": "every catalog trigger x {blank, comment} at every admissible boundary, trailing whitespace on every line, 2 re-indents, CRLF, BOM, appended code; renaming for name-insensitive linters",
    "thorough": "plus all ordered pairs (blank at i, comment at j) for every example of <= 25 lines",
}
MIN_NONTRIVIAL = {"quick": 600, "thorough": 2000}
CM = {"python": "#", "typescript": "//", "javascript": "//", "rust": "//"}
APPEND = {
    "python": "\n\ndef appended_unrelated_helper(value):\n    return value\n",
    "typescript": "\n\nfunction appendedUnrelatedHelper(value: string): string {\n  return value;\n}\n",
    "javascript": "\n\nfunction appendedUnrelatedHelper(value) {\n  return value;\n}\n",
    "rust": "\n\nfn appended_unrelated_helper(value: u8) -> u8 {\n    value\n}\n",
}
HEADER_SENSITIVE = ("file-header", "lazy-ignores")
CROSS = ("dry", "stringly-typed")


def _inside_multiline(lang: str, text: str) -> set[int]:
    """1-based line numbers L such that the boundary BEFORE line L is inside a multi-line token
    (so nothing may be inserted there) or line L itself lies inside such a token."""
    bad: set[int] = set()
    lines = text.split("\n")
    if lang == "python":
        try:
            for t in tokenize.generate_tokens(io.StringIO(text).readline):
                if t.type in (tokenize.STRING, getattr(tokenize, "FSTRING_START", -1)) and t.end[0] > t.start[0]:
                    bad.update(range(t.start[0] + 1, t.end[0] + 1))
                    bad.add(t.start[0])
        except (tokenize.TokenError, IndentationError, SyntaxError):
            return set(range(1, len(lines) + 2))
        # backslash continuations
        for i, ln in enumerate(lines, 1):
            if ln.rstrip().endswith("\\"):
                bad.update((i, i + 1))
        return bad
    state = None
    for i, ln in enumerate(lines, 1):
        if state:
            bad.add(i)
        j = 0
        while j < len(ln):
            if state == "block":
                k = ln.find("*/", j)
                if k < 0:
                    break
                state, j = None, k + 2
            elif state == "tpl":
                k = ln.find("`", j)
                if k < 0:
                    break
                state, j = None, k + 1
            else:
                c = ln[j]
                if ln.startswith("//", j):
                    break
                if ln.startswith("/*", j):
                    state, j = "block", j + 2
                elif c == "`":
                    state, j = "tpl", j + 1
                elif c in "'\"":
                    k = j + 1
                    while k < len(ln) and ln[k] != c:
                        k += 2 if ln[k] == "\\" else 1
                    j = k + 1
                else:
                    j += 1
        if state:
            bad.add(i)
            bad.add(i + 1)
    return bad


def _header_end(lang: str, text: str) -> int:
    """Number of leading lines that belong to the file header (docstring / comment block)."""
    lines = text.split("\n")
    i = 0
    if lang == "python":
        while i < len(lines) and (not lines[i].strip() or lines[i].lstrip().startswith("#")):
            i += 1
        if i < len(lines) and lines[i].lstrip().startswith(('"""', "'''")):
            q = lines[i].lstrip()[:3]
            if lines[i].count(q) >= 2:
                return i + 1
            i += 1
            while i < len(lines) and q not in lines[i]:
                i += 1
            return i + 1
        return i
    while i < len(lines) and (not lines[i].strip() or lines[i].lstrip().startswith(("//", "/*", "*", "*/"))):
        i += 1
    return i


def _class_at_limit():
    body = ["class AtLimit:", "    def first(self):", "        return 1", "", "    def second(self):", "        value = 2", "", "        return value", "", "", "class OverMethods:"]
    body += [ln for i in range(3) for ln in (f"    def m{i}(self):", f"        return {i}", "")]
    return "\n".join(body)


# supplementary programs that sit exactly ON a limit (the documented examples are all far above
# theirs, so an edit that moves a count by one goes unnoticed on them): (linter, language, key,
# files, config).  Each also carries one plain violation so that the unedited run is not empty.
EXTRA = [
    ("nesting", "python", "elif-at-limit", {"mod.py": "def over_limit(a, b):\n    if a:\n        for x in b:\n            while x:\n                if x > a:\n                    work(x)\n    return a\n\n\ndef at_limit(a, b):\n    if a:\n        work(a)\n    elif b:\n        for x in b:\n            if x:\n                work(x)\n    elif a is None:\n        work(b)\n    else:\n        for y in a:\n            work(y)\n    return b\n"}, {"nesting": {"max_nesting_depth": 4}}),
    ("nesting", "typescript", "else-if-at-limit", {"mod.ts": "function overLimit(a: number, b: number[]) {\n  if (a) {\n    for (const x of b) {\n      while (x) {\n        if (x > a) {\n          work(x);\n        }\n      }\n    }\n  }\n  return a;\n}\n\nfunction atLimit(a: number, b: number[]) {\n  if (a) {\n    work(a);\n  } else if (b) {\n    for (const x of b) {\n      if (x) {\n        work(x);\n      }\n    }\n  } else {\n    work(b);\n  }\n  return b;\n}\n"}, {"nesting": {"max_nesting_depth": 4}}),
    ("srp", "python", "class-at-max-loc", {"mod.py": _class_at_limit()}, {"srp": {"max_methods": 2, "max_loc": 6, "check_keywords": False}}),
    ("magic-numbers", "python", "open-block-at-eof", {"mod.py": "def first():\n    return 3601\n\n\n# thailint: ignore-start magic-numbers\ndef second():\n    return 3602\n"}, {}),
    ("unwrap-abuse", "rust", "test-attribute", {"lib.rs": "fn production(opt: Option<u32>) -> u32 {\n    opt.unwrap()\n}\n\n#[test]\nfn case_one() {\n    let v = load().unwrap();\n    check(v);\n}\n\n#[cfg(test)]\nmod tests {\n    fn helper() -> u32 {\n        load().unwrap()\n    }\n}\n"}, {}),
    ("cqs", "typescript", "fluent-exempt-next-to-violation", {"mod.ts": "class Builder {\n  private parts: string[] = [];\n\n  add(part: string) {\n    const size = measure(part);\n    this.parts.push(part);\n    record(size);\n    return this;\n  }\n}\n\nfunction processAndSave(data: string) {\n  const cleaned = normalise(data);\n  store(cleaned);\n  return cleaned;\n}\n"}, {}),
    ("cqs", "python", "fluent-exempt-next-to-violation", {"mod.py": "class Builder:\n    def add(self, part):\n        size = measure(part)\n        self.parts.append(part)\n        record(size)\n        return self\n\n\ndef process_and_save(data):\n    cleaned = normalise(data)\n    store(cleaned)\n    return cleaned\n"}, {}),
    ("clone-abuse", "rust", "format-placeholder-with-similar-name", {"lib.rs": "fn report(s: String, size: usize) -> usize {\n    let copy = s.clone();\n    consume(copy);\n    println!(\"{size} bytes\");\n    size\n}\n\nfn totals(items: Vec<String>, y: String) {\n    for it in items.iter() {\n        consume(y.clone());\n    }\n    touch(&y);\n}\n"}, {}, [("s", "input"), ("y", "label")]),
    ("improper-logging", "python", "open-block-at-eof", {"mod.py": "def first(v):\n    print(v)\n\n\n# thailint: ignore-start improper-logging\ndef second(v):\n    print(v)\n"}, {}),
]


def _setups():
    out = []
    for name, lang, fs, cfg in load.all_triggers(skip=("file-placement",)):
        cmd = load.primary_command(name)
        if cmd or name == "cqs":
            out.append((name, lang))
    return out


def items(tier: str, seed: int):
    out = [{"linter": n, "lang": lg, "pairs": tier == "thorough"} for n, lg in _setups()]
    out += [{"linter": e[0], "lang": e[1], "extra": i, "pairs": tier == "thorough"} for i, e in enumerate(EXTRA)]
    return out


def _run(cmd, prefix, files, cfg):
    fs = dict(files)
    if cfg:
        fs[".thailint.yaml"] = yaml_dump(cfg)
    root = project(fs)
    if cmd is None:
        # a linter without a command of its own (cqs): all rules through the library
        from src.api import Linter  # noqa: PLC0415
        from mc.core import env  # noqa: PLC0415

        env.reset_caches()
        with obs.cwd(root):
            vs = [t for t in obs.norm([obs.vdict(v) for v in Linter(project_root=root).lint(root)], root, root) if t[0].startswith(prefix)]
        remove(root)
        return vs, {"exit_code": 1 if vs else 0, "stderr": ""}
    r = obs.cli_json([cmd, "."], root)
    vs = None if r["violations"] is None else [t for t in obs.norm(r["violations"], root, root) if t[0].startswith(prefix)]
    remove(root)
    return vs, r


def run_item(item) -> Acc:
    acc = Acc()
    name, lang = item["linter"], item["lang"]
    d = load.linters()[name]
    cmd = load.primary_command(name)
    prefix = load.COMMAND_PREFIX[cmd][0] if cmd else (d.get("rule_prefix") or name)
    files = dict(load.trigger_files(name, lang))
    cfg = load.trigger_config(name, lang)
    if item.get("extra") is not None:
        files, cfg = dict(EXTRA[item["extra"]][3]), dict(EXTRA[item["extra"]][4])
    target = sorted(files)[0]
    text = files[target]
    if not text.endswith("\n"):
        text += "\n"
        files[target] = text
    base, r0 = _run(cmd, prefix, files, cfg)
    if not base:
        acc.stat("skipped_trigger_silent_see_C19")
        acc.sample({"linter": name, "lang": lang, "skipped": True})
        return acc
    lines = text.split("\n")[:-1]
    nl = len(lines)
    bad = _inside_multiline(lang, text)
    hdr = _header_end(lang, text) if name in HEADER_SENSITIVE else 0
    cross = name in CROSS or name == "cqs"  # their messages quote line numbers
    cm = CM[lang]
    fails: dict = {}

    def key(t, with_col=True):
        if cross:
            return (t[0], t[1], t[2])
        return (t[0], t[1], t[2], t[3], t[4]) if with_col else (t[0], t[1], t[2], t[4])

    def check(kind, pos, new_text, shift, with_col=True, msg_fix=None):
        nf = dict(files)
        nf[target] = new_text
        got, r = _run(cmd, prefix, nf, cfg)
        if msg_fix and got is not None:
            got = [(t[0], t[1], t[2], t[3], msg_fix(t[4])) for t in got]
        acc.case()
        acc.edge()
        acc.valid()
        acc.nt((name, lang, kind, pos))
        want = sorted(key((t[0], t[1], shift(t[2]) if t[1] == target else t[2], t[3], t[4]), with_col) for t in base)
        g = None if got is None else sorted(key(t, with_col) for t in got)
        acc.outcome((name, kind, None if g is None else len(g)))
        if g != want:
            if g is None:
                mode = f"exit{r['exit_code']}"
            else:
                miss = [t for t in want if t not in g]
                extra = [t for t in g if t not in want]
                if miss and extra and len(miss) == len(extra) and all(a[:2] == b[:2] and a[2] != b[2] for a, b in zip(sorted(miss), sorted(extra))):
                    mode = "line-not-shifted-correctly"
                elif miss and extra and all(a[:3] == b[:3] for a, b in zip(sorted(miss), sorted(extra))) and len(miss) == len(extra):
                    mode = "message-or-column-changed"
                elif miss and not extra:
                    mode = "violation-lost"
                elif extra and not miss:
                    mode = "violation-added"
                else:
                    mode = "differs"
            fails.setdefault((kind, mode), []).append({"linter": name, "lang": lang, "edit": kind, "position": pos, "files": nf, "config": cfg, "cmd": cmd, "want": want[:4], "got": None if g is None else g[:4]})

    # E1/E2: blank / comment line at every admissible boundary (before line b, b in 1..nl+1)
    for b in range(1, nl + 2):
        if b in bad or b <= hdr or (name in HEADER_SENSITIVE and b == 1):
            continue
        ind = ""
        if b <= nl:
            ind = lines[b - 1][: len(lines[b - 1]) - len(lines[b - 1].lstrip())]
        for kind, ins in (("blank-line", ""), ("comment-line", f"{ind}{cm} an unrelated remark"), ("whitespace-only-line", ind + "  "), ("non-ascii-comment-line", f"{ind}{cm} 設定値の説明 – ünïcödé rémârk ✓✓✓✓✓✓✓✓")):
            nt = "\n".join(lines[: b - 1] + [ins] + lines[b - 1 :]) + "\n"
            check(kind, b, nt, lambda x, b=b: x + 1 if x >= b else x)
    # E3: trailing whitespace on every line that is not inside a multi-line token
    for i in range(1, nl + 1):
        if i in bad or (i + 1) in bad or i <= hdr or not lines[i - 1].strip():
            continue
        nt = "\n".join(lines[: i - 1] + [lines[i - 1] + "   "] + lines[i:]) + "\n"
        check("trailing-whitespace", i, nt, lambda x: x)
    # E3b: whitespace put on every blank line
    for i in range(1, nl + 1):
        if i in bad or (i + 1) in bad or i <= hdr or lines[i - 1].strip() or lines[i - 1]:
            continue
        nt = "\n".join(lines[: i - 1] + ["    "] + lines[i:]) + "\n"
        check("whitespace-on-blank-line", i, nt, lambda x: x)
    # E4: consistent re-indentation
    clean = not bad and all((len(ln) - len(ln.lstrip(" "))) % 4 == 0 and "\t" not in ln for ln in lines)
    if clean and name not in HEADER_SENSITIVE:
        for kind, unit in (("reindent-2", "  "), ("reindent-8", "        ")) + ((("reindent-tabs", "\t"),) if lang != "python" or True else ()):
            nt = "\n".join(unit * ((len(ln) - len(ln.lstrip(" "))) // 4) + ln.lstrip(" ") for ln in lines) + "\n"
            check(kind, 0, nt, lambda x: x, with_col=False)
    # E5/E6/E7
    check("crlf", 0, text.replace("\n", "\r\n"), lambda x: x)
    if name not in HEADER_SENSITIVE:
        check("bom", 0, "﻿" + text, lambda x: x)
    if name != "file-header":
        check("append-unrelated-code", nl + 1, text + APPEND[lang], lambda x: x)
    # E8: consistent renaming of a local identifier (only for rules documented as name-insensitive)
    if not d.get("name_sensitive") and not cross and name not in HEADER_SENSITIVE:
        ids = re.findall(r"\b([a-z][a-z0-9_]{2,})\b", text)
        kw = {"test", "cfg", "derive", "allow", "inline", "def", "return", "for", "while", "import", "from", "class", "self", "print", "console", "log", "function", "const", "let", "var", "async", "await", "else", "elif", "None", "true", "false", "pass", "break", "continue", "not", "and", "with", "try", "except", "finally", "raise", "match", "case", "loop", "impl", "pub", "mut", "use", "mod", "struct", "string", "number", "range", "len", "unwrap", "expect", "clone", "std", "thread", "sleep", "read_to_string", "tokio", "export", "new", "this", "typeof", "void", "null", "undefined", "any", "str", "int", "bool", "dict", "list", "get", "set", "items", "append", "format", "error", "warn", "info", "debug", "push", "iter", "map", "filter", "collect", "some", "none", "path", "file", "open", "write", "read", "net", "connect", "lambda", "yield", "global", "del", "assert", "isinstance", "hasattr", "getattr", "type", "enumerate", "zip", "sum", "min", "max", "abs", "float", "tuple", "object", "super", "property", "staticmethod", "classmethod"}
        cand = [i for i in dict.fromkeys(ids) if i not in kw and ids.count(i) >= 2 and not re.search(rf"[\"'`][^\"'`]*\b{i}\b", text)]
        msgs = " ".join(t[4] for t in base)
        cand = [i for i in cand if i not in msgs][:2]
        for ident in cand:
            nt = re.sub(rf"\b{ident}\b", ident + "_rn", text)
            check("rename-local", ident, nt, lambda x: x, with_col=False)
    if item.get("extra") is not None and len(EXTRA[item["extra"]]) > 5:
        # explicit renames of a supplementary program (short names the generic picker skips)
        for old_name, new_name in EXTRA[item["extra"]][5]:
            nt = re.sub(rf"(?<![\w{{]){old_name}\b", new_name, text)
            check("rename-local", f"{old_name}->{new_name}", nt, lambda x: x, with_col=False, msg_fix=lambda m, a=old_name, b=new_name: re.sub(rf"\b{b}\b", a, m))
    if item["pairs"] and nl <= 25:
        ok = [b for b in range(1, nl + 2) if b not in bad and b > hdr and not (name in HEADER_SENSITIVE and b == 1)]
        for i in ok[::2]:
            for j in ok[1::3]:
                L2 = lines[: i - 1] + [""] + lines[i - 1 :]
                jj = j + (1 if j >= i else 0)
                L2 = L2[: jj - 1] + [f"{cm} an unrelated remark"] + L2[jj - 1 :]
                check("blank+comment", (i, j), "\n".join(L2) + "\n", lambda x, i=i, j=j: x + (1 if x >= i else 0) + (1 if x >= j else 0))
    for (kind, mode), lst in fails.items():
        c0 = lst[0]
        sig = {"linter": name, "lang": lang, "edit": kind, "mode": mode}
        if item.get("extra") is not None:
            sig["example"] = EXTRA[item["extra"]][2]
            c0["extra"] = item["extra"]
        if name == "dry" and kind in ("blank-line", "comment-line", "whitespace-only-line", "non-ascii-comment-line", "blank+comment"):
            # one root cause: which of the overlapping duplicate windows is kept depends on the
            # physical line spans, so a line inserted inside a duplicated block re-selects them
            sig = {"linter": "dry", "edit": "line-inserted-inside-duplicated-block", "mode": "duplicate-windows-reselected"}
        acc.fail(sig, c0, c0["want"], c0["got"], f"{len(lst)} positions: {[c['position'] for c in lst][:8]}")
    acc.sample({"linter": name, "lang": lang, "lines": nl, "admissible_boundaries": len([b for b in range(1, nl + 2) if b not in bad and b > hdr]), "baseline_violations": len(base)})
    return acc


def replay_case(case) -> list[dict]:
    fs = dict(case["files"])
    if case.get("config"):
        fs[".thailint.yaml"] = yaml_dump(case["config"])
    root = project(fs)
    r = obs.cli_subprocess([case["cmd"], "--format", "json", "."], root)
    print(f"edit {case['edit']} at {case['position']}:")
    for n, c in case["files"].items():
        print(f"--- {n} ---\n{c!r}"[:3000])
    print(f"$ thailint {case['cmd']} --format json .\nexit={r['exit_code']}\n{r['stdout'][:1500]}\nexpected (shifted baseline): {case['want']}")
    remove(root)
    it = {"linter": case["linter"], "lang": case["lang"], "pairs": False}
    if case.get("extra") is not None:
        it["extra"] = case["extra"]
    a = run_item(it)
    return [f for f in a.failures if f["signature"].get("edit") == case["edit"]]
