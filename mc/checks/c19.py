"""C19 — every linter honours its documented examples, wherever they are embedded.

E-input: every strongly-labelled example of docs/*-linter.md (catalog `examples`, bound to the docs
by file + line + verbatim snippet) x every admissible embedding (as-is, inside a function, a
method, an if block, two scopes deep, before/after filler code, two and three renamed copies).
Oracle: a violating example is reported by its linter once per occurrence at the documented
line(s); an acceptable / refactored example is not reported by that linter.
"""

from __future__ import annotations

import ast
import re
from pathlib import Path

from mc.catalog import load
from mc.core import env, obs
from mc.core.isolate import project, remove, yaml_dump
from mc.core.runner import Acc

PROPERTY = "C19"
LEVEL = "model_checking"
RULE = (
    "case = (linter, documented example, embedding); all strongly-labelled examples x all admissible "
    "embeddings; non-trivial = a violating example (a report is predicted) or an acceptable example "
    "whose violating counterpart exists in the same document; distinct by (example id, embedding)"
)
ASSUMPTIONS = [
    "examples and their labels are transcribed from the docs (mc/catalog/linters/*.json); a start-up pass re-reads the docs and refuses entries whose snippet is no longer there (STALE-CATALOG)",
    "only strongly-labelled examples are used (explicit label, inline marker, Before/After of a pattern linter); hedged, elided, style-advice, ignore-directive and configuration/CLI snippets are left out",
    "embedding freedom (scopes, renaming) applies to the pattern linters the statement lists; threshold and Rust linters are run as-is and with filler before/after",
    "the reported rule id must belong to the documented linter (prefix), the exact sub-rule spelling of the docs is not compared",
]
BOUND = {
    "quick": "all strongly-labelled examples x {as-is, filler-before, filler-after} and, for pattern linters (Python), x {in-function, in-method, in-if, two-deep, twice, three-times}",
    "thorough": "same plus pairs of embeddings (wrapper o filler, wrapper o multiplicity)",
}
MIN_NONTRIVIAL = {"quick": 300, "thorough": 600}
PATTERN = {"improper-logging", "method-property", "stateless-class", "collection-pipeline", "pipeline", "lbyl", "stringly-typed", "cqs", "perf", "lazy-ignores", "file-header"}
TOP_ONLY = {"lazy-ignores", "file-header"}
WEAK_KEYS = ("hedged", "elided", "inline_fragment", "completed_code")
STRONG = {None, "explicit", "inline_marker", "before_after", "violation_label", "output_example"}
# Examples left out because the DOCUMENTATION contradicts itself about them (not the tool):
EXCLUDE = {
    "srp/py/4": "labelled `Passes SRP check` for its method count, but the class is called DataProcessor and the same page lists `Processor` as a responsibility keyword",
    "srp/py/16": "same: `DataProcessor # 3 methods` in an After block vs. the documented keyword rule",
    "unwrap-abuse/rs/21": "a Before block that only uses .expect(), which the same page documents as allowed by default (allow_expect: true)",
    "unwrap-abuse/rs/28": "`// Bad` style advice about .expect(); allowed by the documented default",
    "lazy-ignores/py/10": "`# GOOD` refers to the specificity of the suppression, not to its justification",
    "file-header/py/26": "`# Good - Timeless description` is style advice on one field, not a complete header",
    "nesting/py/6": "`After (depth 2)`: by the page's own Depth Calculation section the snippet has depth 3",
    "nesting/py/10": "`After (depth 2)`: by the page's own Depth Calculation section the snippet has depth 3",
    "magic-numbers/py/12": "`max_size = 100  # <- Flagged`: 100 is in the documented default allowed_numbers",
    "perf/py/14": "hedged (`Might be flagged`) and the snippet has no `import re`",
}
FILLER_PY = "\n".join(f"def filler_{i}(value):\n    return value\n" for i in range(10)) + "\n"
FILLER = {
    "python": FILLER_PY,
    "typescript": "\n".join(f"export function filler{i}(value: string): string {{\n  return value;\n}}\n" for i in range(10)) + "\n",
    "javascript": "\n".join(f"function filler{i}(value) {{\n  return value;\n}}\n" for i in range(10)) + "\n",
    "rust": "\n".join(f"fn filler_{i}(value: u8) -> u8 {{\n    value\n}}\n" for i in range(10)) + "\n",
}
EXT = {"python": ".py", "typescript": ".ts", "javascript": ".js", "rust": ".rs"}


def _strong(e) -> bool:
    if e.get("label_strength") not in STRONG:
        return False
    if any(e.get(k) for k in WEAK_KEYS):
        return False
    if e.get("category") == "ignore-directive":
        return False
    if e.get("kind") == "violating" and not (e.get("expected_rule_id") or e.get("expected_rule_prefix")):
        return False
    return e.get("language") in EXT


def _doc_bound(e) -> bool:
    """The snippet must still be in the documentation (first line of code present in the file)."""
    a = e.get("doc_anchor") or {}
    f = a.get("file")
    if not f:
        return True
    p = env.REPO / f
    if not p.exists():
        return False
    first = next((ln.strip() for ln in (e.get("code") or "").split("\n") if ln.strip()), "")
    return (not first) or first in p.read_text(errors="replace")


def _base(name, e):
    """-> (files, main file, line offset of the snippet in main, config) or None"""
    lang = e["language"]
    cfg = e.get("config") if isinstance(e.get("config"), dict) else {}
    needs = load.linters()[name].get("needs_config") or {}
    cfg = load.deep_merge(needs, cfg or {})
    ra = e.get("run_as")
    if isinstance(ra, dict) and isinstance(ra.get("files"), dict) and ra["files"]:
        files = dict(ra["files"])
        return files, sorted(files)[0], None, cfg
    if isinstance(e.get("files"), dict) and e["files"]:
        files = {k: (v if isinstance(v, str) else v.get("code", "")) for k, v in e["files"].items()}
        return files, sorted(files)[0], None, cfg
    code = e.get("code") or ""
    off = 0
    if e.get("wrapped_code"):
        code, off = e["wrapped_code"], 1
    if not code.strip():
        return None
    if lang == "rust" and not re.search(r"\b(fn|struct|impl|mod|use|const|static|enum|trait)\b", code):
        # a statement fragment: only valid inside a function body
        code, off = "fn documented_fragment() {\n" + "\n".join("    " + ln for ln in code.rstrip("\n").split("\n")) + "\n}\n", 1
    fname = e.get("filename") or ("mod" + EXT[lang])
    if not fname.endswith(tuple(EXT.values())):
        fname = "mod" + EXT[lang]
    code = code if code.endswith("\n") else code + "\n"
    if load.linters()[name].get("cross_file"):
        # cross-file linters need the pattern in two files: the documented snippet is used twice
        return {"mod_a" + EXT[lang]: code, "mod_b" + EXT[lang]: code}, "mod_a" + EXT[lang], off, cfg
    return {fname: code}, fname, off, cfg


def _indent(code, n):
    pad = "    " * n
    return "\n".join((pad + ln if ln.strip() else ln) for ln in code.split("\n"))


def _rename_copy(code, k):
    """A copy whose top-level def/class names (and their uses) carry a suffix."""
    names = set(re.findall(r"^(?:async\s+)?(?:def|class)\s+([A-Za-z_]\w*)", code, flags=re.M))
    out = code
    for n in names:
        if n.startswith("__"):
            continue
        out = re.sub(rf"\b{re.escape(n)}\b", f"{n}{'_c' if n.islower() or '_' in n else 'C'}{k}", out)
    return out


def _embeddings(name, lang, code, top_only):
    """[(embedding name, new code, [line offsets of each occurrence])]"""
    n = code.count("\n")
    filler = FILLER[lang]
    fl = filler.count("\n")
    out = [("as-is", code, [0]), ("filler-after", code + "\n" + filler, [0])]
    if not top_only:
        out.append(("filler-before", filler + "\n" + code, [fl + 1]))
    canon = "collection-pipeline" if name == "pipeline" else name
    if lang in ("typescript", "javascript") and canon in PATTERN and not top_only and not re.search(r"^\s*(import|export)\b", code, flags=re.M):
        ind2 = lambda c_: "\n".join(("  " + ln if ln.strip() else ln) for ln in c_.split("\n"))  # noqa: E731
        out.append(("in-function", "function wrapperFn() {\n" + ind2(code) + "\n}\n", [1]))
        out.append(("in-const-arrow", "const wrapperArrow = () => {\n" + ind2(code) + "\n};\n", [1]))
        out.append(("in-object-method", "const holder = {\n  run: function () {\n" + ind2(ind2(code)) + "\n  },\n};\n", [2]))
        renamed = code
        for a, b in (("result", "tally7"), ("html", "markup7"), ("output", "emitted7"), ("message", "notice7")):
            renamed = re.sub(rf"\b{a}\b", b, renamed)
        if renamed != code:
            out.append(("renamed-locals", renamed, [0]))
            out.append(("renamed-locals-in-const-arrow", "const wrapperArrow = () => {\n" + ind2(renamed) + "\n};\n", [1]))
        return out
    if lang != "python" or canon not in PATTERN or top_only:
        return out
    out.append(("in-function", "def wrapper_fn():\n" + _indent(code, 1), [1]))
    out.append(("in-method", "class WrapperCls:\n    def wrapper_method(self):\n" + _indent(code, 2), [2]))
    out.append(("in-if", "if feature_enabled:\n" + _indent(code, 1), [1]))
    out.append(("two-deep", "def outer_fn():\n    def inner_fn():\n" + _indent(code, 2), [2]))
    # every kind of block a definition or statement can legally live in
    out.append(("in-except-handler", "try:\n    import fastlib\nexcept ImportError:\n" + _indent(code, 1), [3]))
    out.append(("in-try-body", "try:\n" + _indent(code, 1) + "\nexcept ImportError:\n    pass\n", [1]))
    out.append(("in-finally", "try:\n    prepare()\nfinally:\n" + _indent(code, 1), [3]))
    out.append(("in-else", "if legacy_mode:\n    pass\nelse:\n" + _indent(code, 1), [3]))
    out.append(("in-with", "with resource() as handle:\n" + _indent(code, 1), [1]))
    out.append(("in-for-loop", "for batch in batches:\n" + _indent(code, 1), [1]))
    out.append(("in-while-loop", "while pending:\n" + _indent(code, 1), [1]))
    # only for linters whose subject is a statement or loop, not the function that holds it
    body = _function_body(code) if canon in ("perf", "lbyl", "collection-pipeline", "improper-logging") else None
    if body:
        # the example's statements (without its def line) as the body of an enclosing loop
        out.append(("body-in-for-loop", "def wrapper_fn(batches, items):\n    for batch in batches:\n" + _indent(body[0], 2) + "\n    return batches\n", [2 - body[1]]))
        out.append(("body-in-while-loop", "def wrapper_fn(pending, items):\n    while pending:\n" + _indent(body[0], 2) + "\n        pending -= 1\n    return pending\n", [2 - body[1]]))
    out.append(("in-match-case", "match kind:\n    case \"primary\":\n" + _indent(code, 2), [2]))
    out.append(("in-init-method", "class HolderCls:\n    def __init__(self):\n" + _indent(code, 2), [2]))
    out.append(("in-property", "class HolderCls:\n    @property\n    def view(self):\n" + _indent(code, 2), [3]))
    out.append(("in-fluent-method", "class HolderCls:\n    def chain(self):\n" + _indent(code, 2) + "\n        return self\n", [2]))
    c2, c3 = _rename_copy(code, 2), _rename_copy(code, 3)
    out.append(("twice", code + "\n\n" + c2, [0, n + 2]))
    out.append(("three-times", code + "\n\n" + c2 + "\n\n" + c3, [0, n + 2, 2 * (n + 2)]))
    # the same example a second time under the SAME names: at module level and inside a function
    out.append(("same-names-in-function", code + "\n\ndef wrapper_fn():\n" + _indent(code, 1), [0, n + 3]))
    out.append(("same-names-in-two-functions", "def make_first():\n" + _indent(code, 1) + "\n\n\ndef make_second():\n" + _indent(code, 1), [1, n + 5]))
    nested = _nest_in_own_loop(code)
    if nested:
        out.append(("nested-in-own-loop", nested[0], [0, nested[1]]))
    names = _assigned_names(code)
    if names:
        other = "\n".join(f"{nm} = []" for nm in names) + "\n\n\ndef unrelated_collect(values):\n" + "".join(f"    {nm} = []\n    for value in values:\n        {nm} += [value]\n" for nm in names[:3]) + "    return values\n"
        out.append(("beside-unrelated-modules", code, [0], {"aaa_first.py": other, "zzz_last.py": other}))
    return out


def _function_body(code):
    """(dedented body statements of the example's single top-level function without its
    top-level return statements, number of lines dropped above them) or None."""
    try:
        tree = ast.parse(code)
    except (SyntaxError, ValueError):
        return None
    fns = [n for n in tree.body if isinstance(n, ast.FunctionDef)]
    if len(fns) != 1 or len(tree.body) != 1:
        return None
    stmts = [st for st in fns[0].body if not isinstance(st, ast.Return) and not (isinstance(st, ast.Expr) and isinstance(getattr(st, "value", None), ast.Constant))]
    if not stmts:
        return None
    lines = code.split("\n")
    first, last = stmts[0].lineno, max(getattr(n, "end_lineno", 0) or 0 for st in stmts for n in ast.walk(st))
    seg = lines[first - 1 : last]
    ind = min(len(ln) - len(ln.lstrip()) for ln in seg if ln.strip())
    return "\n".join(ln[ind:] for ln in seg), first - 1


def _assigned_names(code):
    try:
        tree = ast.parse(code)
    except (SyntaxError, ValueError):
        return []
    names = []
    for node in ast.walk(tree):
        if isinstance(node, (ast.Assign, ast.AugAssign, ast.AnnAssign)):
            for t in (node.targets if isinstance(node, ast.Assign) else [node.target]):
                if isinstance(t, ast.Name) and t.id not in names and t.id.islower():
                    names.append(t.id)
    return names[:6]


def _nest_in_own_loop(code):
    """The example again (renamed) as the last statements of its own first `for` loop body.
    -> (new code, line offset of the inner copy) or None when the example has no for loop."""
    try:
        tree = ast.parse(code)
    except (SyntaxError, ValueError):
        return None
    loop = next((nd for nd in ast.walk(tree) if isinstance(nd, ast.For)), None)
    if loop is None or not loop.body:
        return None
    last = max(getattr(nd, "end_lineno", 0) or 0 for nd in ast.walk(loop.body[-1]))
    pad = " " * loop.body[0].col_offset
    lines = code.split("\n")
    base_ind = min((len(ln) - len(ln.lstrip()) for ln in lines if ln.strip()), default=0)
    inner = [(pad + ln[base_ind:] if ln.strip() else ln) for ln in _rename_copy(code, 7).rstrip("\n").split("\n")]
    new = lines[:last] + inner + lines[last:]
    return "\n".join(new), last


def _parses(lang, code) -> bool:
    if lang != "python":
        return True
    try:
        ast.parse(code)
        return True
    except (SyntaxError, ValueError):
        return False


def _examples():
    out = []
    for name, d in load.linters().items():
        if name == "file-placement":
            continue
        for e in d.get("examples") or []:
            if e.get("id") in EXCLUDE:
                continue
            if _strong(e):
                out.append((name, e))
    return out


def items(tier: str, seed: int):
    ex = _examples()
    return [{"linter": n, "id": e["id"]} for n, e in ex]


def _lint(name, files, cfg, cross):
    fs = dict(files)
    if cfg:
        fs[".thailint.yaml"] = yaml_dump(cfg)
    root = project(fs)
    cmd = load.primary_command(name)
    d = load.linters()[name]
    if cmd:
        r = obs.cli_json([cmd, "."], root)
        prefix = load.COMMAND_PREFIX[cmd][0]
        vs = None if r["violations"] is None else [t for t in obs.norm(r["violations"], root, root) if t[0].startswith(prefix)]
    else:
        from src.api import Linter  # noqa: PLC0415

        env.reset_caches()
        prefix = d.get("rule_prefix") or name
        with obs.cwd(root):
            vs = [t for t in obs.norm([obs.vdict(v) for v in Linter(project_root=root).lint(root)], root, root) if t[0].startswith(prefix)]
        r = {"exit_code": 1 if vs else 0, "stderr": ""}
    remove(root)
    return vs, r


def run_item(item) -> Acc:
    acc = Acc()
    name = item["linter"]
    d = load.linters()[name]
    e = next(x for x in d["examples"] if x["id"] == item["id"])
    case0 = {"linter": name, "example": e["id"], "doc": e.get("doc_anchor")}
    if not _doc_bound(e):
        acc.fail({"mode": "STALE-CATALOG", "example": e["id"]}, case0, "snippet present in the documentation", "not found")
        return acc
    b = _base(name, e)
    if b is None:
        acc.stat("skipped_no_code")
        return acc
    files, main, off, cfg = b
    lang = e["language"]
    cross = bool(d.get("cross_file"))
    single = off is not None and (len(files) == 1 or (cross and set(files) == {"mod_a" + EXT[lang], "mod_b" + EXT[lang]}))
    code = files[main]
    if lang == "python" and single and not _parses(lang, code):
        acc.stat("skipped_does_not_parse_standalone")
        return acc
    embeds = _embeddings(name, lang, code, name in TOP_ONLY) if single else [("as-is", None, [0])]
    exp_lines = [ln for ln in (e.get("expected_lines") or []) if isinstance(ln, int)]
    nlines = code.count("\n")
    fails = []
    for emb, new_code, offsets, *more in embeds:
        if new_code is not None and not _parses(lang, new_code):
            acc.stat("embedding_skipped_not_parseable")
            continue
        fs = dict(files)
        if new_code is not None:
            fs[main] = new_code
        if more:
            fs.update(more[0])
        vs, r = _lint(name, fs, cfg, cross)
        acc.case()
        acc.edge()
        acc.valid()
        case = {**case0, "embedding": emb, "files": fs, "config": cfg, "kind": e["kind"]}
        if vs is None:
            fails.append((emb, f"exit{r['exit_code']}", case, "exit 0/1", r["stderr"][-300:]))
            continue
        acc.outcome((e["id"], emb, len(vs)))
        mine = [t for t in vs if t[1] == main] if single else vs
        if e["kind"] == "violating":
            acc.nt((e["id"], emb))
            for oi, o in enumerate(offsets):
                inside = [t for t in mine if o + (off or 0) < t[2] <= o + (off or 0) + nlines + 1] if single else mine
                if not inside:
                    mode = "documented-violation-not-reported" if oi == 0 else "later-copy-not-reported"
                    fails.append((emb, mode, case, "reported by " + name + f" inside the occurrence at offset {o}", [list(t[:3]) for t in mine][:4]))
                    break
        else:
            acc.nt((e["id"], emb, "acceptable"))
            if single and emb not in ("as-is", "filler-after", "filler-before"):
                # only what is reported INSIDE the embedded example counts (the wrapper the
                # embedding adds - e.g. a fluent method - may legitimately be reported itself)
                mine = [t for t in mine if any(o + (off or 0) < t[2] <= o + (off or 0) + nlines + 1 for o in offsets)]
            if mine:
                fails.append((emb, "acceptable-example-reported", case, "not reported by " + name, [list(t[:3]) + [t[4][:80]] for t in mine][:3]))
    asis = [f for f in fails if f[0] == "as-is"]
    if asis:
        emb, mode, case, want, got = asis[0]
        sig = {"linter": name, "example": e["id"], "mode": mode}
        if name == "file-header" and mode == "acceptable-example-reported" and got and all("Missing mandatory field: Interfaces" in g[-1] for g in got):
            # one root cause for every documented `Refactored code` header
            sig = {"linter": name, "mode": mode, "why": "documented complete headers lack `Interfaces`, which the tool requires although the page lists Purpose/Scope/Overview as the mandatory fields"}
        acc.fail(sig, case, want, got, f"doc: {e.get('doc_anchor')}")
    else:
        for emb, mode, case, want, got in fails:
            # the example behaves as documented on its own; only this placement breaks it
            acc.fail({"linter": name, "embedding": emb, "mode": mode, "kind": e["kind"]}, case, want, got, f"example {e['id']}")
    acc.sample({"example": e["id"], "kind": e["kind"], "embeddings": [x[0] for x in embeds], "doc": e.get("doc_anchor")})
    return acc


def replay_case(case) -> list[dict]:
    fs = dict(case["files"])
    if case.get("config"):
        fs[".thailint.yaml"] = yaml_dump(case["config"])
    root = project(fs)
    cmd = load.primary_command(case["linter"])
    print(f"documented example {case['example']} ({case['kind']}) from {case.get('doc')}; embedding: {case['embedding']}")
    for n, c in case["files"].items():
        print(f"--- {n} ---\n{c}")
    if cmd:
        r = obs.cli_subprocess([cmd, "--format", "json", "."], root)
        print(f"$ thailint {cmd} --format json .\nexit={r['exit_code']}\n{r['stdout'][:1500]}")
    remove(root)
    a = run_item({"linter": case["linter"], "id": case["example"]})
    return [f for f in a.failures if f["case"].get("embedding") == case["embedding"]]


_ = Path
