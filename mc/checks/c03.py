"""C03 — duplicate-code (DRY) findings are sound, mutual and complete.

E-input: projects of 1-3 Python / TypeScript / JavaScript files built from a pool of ordinary
statements with planted duplicate runs (length, multiplicity, position, same/different file,
indentation, interleaved blank/comment lines, trailing comments) x min_duplicate_lines x
min_occurrences.  Oracles (independent normaliser + construction record): soundness of every
named location, mutuality, completeness for every planted occurrence, occurrence count, silence.
"""

from __future__ import annotations

import io
import itertools
import re
import tokenize

from mc.core import obs
from mc.core.enum import chunks
from mc.core.isolate import project, remove, yaml_dump
from mc.core.runner import Acc

PROPERTY = "C03"
LEVEL = "model_checking"
RULE = (
    "case = (language, k = min_duplicate_lines, run length L, multiplicity m, placement, decoration, "
    "min_occurrences); complete product within the bound; non-trivial = the construction plants a "
    "run with L >= k and m >= min_occurrences (a violation is predicted); distinct by the whole tuple"
)
ASSUMPTIONS = [
    "ordinary statements = single-line assignments/calls/augmented assignments inside function bodies that none of the documented false-positive filters addresses; a start-up sanity case proves the pool is ordinary",
    "`covered` is interpreted in its least demanding form: a planted occurrence is covered when a violation of that file starts inside it; a named location is covered when a violation's span intersects it",
    "every non-planted line of a project is globally unique, so the only shared runs are the planted ones",
]
BOUND = {
    "quick": "3 languages, k in {3,4}, L in {k-1,k,k+1,2k}, m in {1,2}, placements {two files, same file disjoint}, 6 decorations, min_occurrences in {2,3}",
    "thorough": "k in {2,3,4,5}, L up to 2k+1, m up to 3 over 3 files, adjacent placement, decoration pairs",
}
MIN_NONTRIVIAL = {"quick": 150, "thorough": 800}
MSG = re.compile(r"Duplicate code \((\d+) lines, (\d+) occurrences\)\. Also found in: (.*)$")

POOL = {
    "py": [
        "alpha = fetch_alpha(source)", "beta = alpha.transform(stage_one)", "gamma = combine(alpha, beta)", "delta.append(gamma)",
        "counter += len(gamma)", "epsilon = normalise(delta, counter)", "zeta = epsilon.split(marker)", "store.update(zeta)",
        "eta = store.lookup(primary)", "theta = eta.merge(secondary)", "iota = theta.render(layout)", "kappa = publish(iota, channel)",
    ],
    "ts": [
        "const alpha = fetchAlpha(source);", "const beta = alpha.transform(stageOne);", "const gamma = combine(alpha, beta);", "delta.push(gamma);",
        "counter += gamma.length;", "const epsilon = normalise(delta, counter);", "const zeta = epsilon.split(marker);", "store.update(zeta);",
        "const eta = store.lookup(primary);", "const theta = eta.merge(secondary);", "const iota = theta.render(layout);", "const kappa = publish(iota, channel);",
    ],
}
POOL["js"] = POOL["ts"]
EXT = {"py": ".py", "ts": ".ts", "js": ".js"}
DECOS = ["plain", "indent", "blank", "comment", "trailing", "tabs-spaces", "quote-trailing", "formfeed"]


def _uniq(lang, n):
    return f"uniq_{n} = make_unique_{n}(seed_{n})" if lang == "py" else f"const uniq{n} = makeUnique{n}(seed{n});"


def _fn_open(lang, name):
    return f"def {name}(source, store, delta, counter):" if lang == "py" else f"function {name}(source, store, delta, counter) {{"


def _decorate(lang, run, deco, ind):
    """-> list of physical lines for one occurrence (with decoration)."""
    cm = "#" if lang == "py" else "//"
    out = []
    if deco == "indent":
        out.append(ind + ("if ready:" if lang == "py" else "if (ready) {"))
        for s in run:
            out.append(ind + "    " + s)
        if lang != "py":
            out.append(ind + "}")
        return out, 1
    for i, s in enumerate(run):
        if deco == "blank" and i == 1:
            out.append("")
        if deco == "comment" and i == 1:
            out.append(ind + f"{cm} an explanatory remark")
        line = ind + s
        if deco in ("trailing", "quote-trailing") and i == 0:
            line += f"  {cm} why this matters"
        if deco == "tabs-spaces" and lang != "py" and i == 0:
            line = ind + s.replace(" = ", "  =  ")
        out.append(line)
    return out, 0


def build(lang, k, L, m, placement, deco, start=1, nfiles=2):
    """-> (files {name: text}, occurrences [(file, first_line, last_line)], run)"""
    run = POOL[lang][start : start + L]
    if deco == "quote-trailing" and run:
        # an apostrophe inside a double-quoted string, followed (in one copy only) by a comment
        run = [('label = "job isn\'t queued"' if lang == "py" else 'const label = "job isn\'t queued";')] + run[1:]
    ind = "    " if lang == "py" else "  "
    files, occ = {}, []
    counter = itertools.count(1)
    where = {"two-files": [0, 1, 2], "same-file": [0, 0, 0], "adjacent": [0, 0, 0]}[placement]
    per_file: dict[int, list] = {}
    for j in range(m):
        per_file.setdefault(where[j], []).append(j)
    for fi in range(max(nfiles, max(where[:m]) + 1 if m else 1)):
        lines = []
        plants = per_file.get(fi, [])
        nf = max(1, len(plants)) if placement != "adjacent" else 1
        groups = [[p] for p in plants] if placement != "adjacent" else [plants]
        if not groups:
            groups = [[]]
        for g in groups:
            name = f"handler_{next(counter)}"
            lines.append(_fn_open(lang, name))
            lines.append(ind + _uniq(lang, next(counter)))
            lines.append(ind + _uniq(lang, next(counter)))
            for j in g:
                d = deco if j == 0 else "plain"  # decorate one occurrence, keep the others plain
                body, off = _decorate(lang, run, d, ind)
                first = len(lines) + 1 + off
                lines += body
                last = len(lines) - (1 if d == "indent" and lang != "py" else 0)
                occ.append((f"f{fi}{EXT[lang]}", first, last))
                if placement != "adjacent":
                    lines.append(ind + _uniq(lang, next(counter)))
            lines.append(ind + _uniq(lang, next(counter)))
            if lang == "py":
                lines.append(ind + "return counter")
            else:
                lines.append(ind + "return counter;")
                lines.append("}")
            lines.append("")
        del nf
        if deco == "formfeed" and fi == 0:
            # a page break (form feed) on a line of its own above everything: one physical line
            lines.insert(0, "\x0c")
            occ[:] = [(f, a + 1, b + 1) if f == f"f{fi}{EXT[lang]}" else (f, a, b) for (f, a, b) in occ]
        files[f"f{fi}{EXT[lang]}"] = "\n".join(lines) + "\n"
    return files, occ, run


def build_whole(lang, L, m, deco):
    """Each occurrence is a whole file whose entire code is exactly the run (nothing else)."""
    run = POOL[lang][1 : 1 + L]
    files, occ = {}, []
    for fi in range(max(m, 2)):
        head = []
        if deco == "header":
            head = (['"""Module %d."""' % fi, "", "import os", ""] if lang == "py" else ["/** Module %d. */" % fi, "", "import * as os from 'os';", ""])
        if fi < m:
            body = list(run)
            occ.append((f"f{fi}{EXT[lang]}", len(head) + 1, len(head) + L))
        else:
            body = [_uniq(lang, 100 * fi + j) for j in range(L)]
        files[f"f{fi}{EXT[lang]}"] = "\n".join(head + body) + "\n"
    return files, occ, run


def build_periodic(lang, k, reps, m):
    """One statement repeated `reps` times in a row (k < reps < 2k): its k-line windows overlap
    themselves, so one such place alone contains no two disjoint copies of anything."""
    stmt = POOL[lang][3]
    ind = "    " if lang == "py" else "  "
    files, occ = {}, []
    n = itertools.count(1)
    for fi in range(max(m, 2)):
        lines = [_fn_open(lang, f"handler_{next(n)}"), ind + _uniq(lang, next(n)), ind + _uniq(lang, next(n))]
        if fi < m:
            first = len(lines) + 1
            lines += [ind + stmt] * reps
            occ.append((f"f{fi}{EXT[lang]}", first, len(lines)))
        lines.append(ind + _uniq(lang, next(n)))
        lines += [ind + "return counter"] if lang == "py" else [ind + "return counter;", "}"]
        files[f"f{fi}{EXT[lang]}"] = "\n".join(lines) + "\n"
    return files, occ, [stmt] * reps


# ------------------------------------------------------------------ independent normaliser


def norm_lines(lang, text, first, last):
    """Normalised non-empty lines of text[first..last] (1-based, inclusive): comments removed
    with a real tokenizer (python) / a string-aware scanner (ts/js), whitespace collapsed."""
    src = text.split("\n")
    seg = src[first - 1 : last]
    out = []
    for ln in seg:
        s = _strip_comment(lang, ln)
        s = re.sub(r"\s+", "", s)
        if s:
            out.append(s)
    return out


def _strip_comment(lang, line):
    if lang == "py":
        try:
            toks = list(tokenize.generate_tokens(io.StringIO(line.strip() + "\n").readline))
            for t in toks:
                if t.type == tokenize.COMMENT:
                    return line.strip()[: t.start[1]]
        except (tokenize.TokenError, IndentationError, SyntaxError):
            pass
        return line.strip()
    out, q, i = [], None, 0
    s = line
    while i < len(s):
        c = s[i]
        if q:
            out.append(c)
            if c == "\\":
                if i + 1 < len(s):
                    out.append(s[i + 1])
                    i += 1
            elif c == q:
                q = None
        elif c in "'\"`":
            q = c
            out.append(c)
        elif s.startswith("//", i):
            break
        else:
            out.append(c)
        i += 1
    return "".join(out)


# ------------------------------------------------------------------ items


def items(tier: str, seed: int):
    out = [{"kind": "sanity"}]
    ks = (3, 4) if tier == "quick" else (2, 3, 4, 5)
    ms = (1, 2) if tier == "quick" else (1, 2, 3)
    places = ("two-files", "same-file") if tier == "quick" else ("two-files", "same-file", "adjacent")
    for lang in ("py", "ts", "js"):
        combos = []
        for k in ks:
            Ls = sorted({k - 1, k, k + 1, 2 * k} | ({2 * k + 1} if tier == "thorough" else set()))
            for L, m, pl, deco, mo in itertools.product(Ls, ms, places, DECOS, (2, 3)):
                if L < 1 or L > 10:
                    continue
                if pl == "adjacent" and m < 2:
                    continue
                combos.append((k, L, m, pl, deco, mo))
        for block in chunks(combos, 40):
            out.append({"kind": "plants", "lang": lang, "combos": block})
        out.append({"kind": "shapes", "lang": lang, "ks": list(ks)})
    return out


def _lint(files, k, mo):
    cfg = {"dry": {"enabled": True, "min_duplicate_lines": k, "min_occurrences": mo}}
    root = project({**files, ".thailint.yaml": yaml_dump(cfg)})
    r = obs.cli_json(["dry", "."], root)
    vs = None if r["violations"] is None else [dict(v, file=obs.relfile(v["file"], root, root)) for v in r["violations"] if v["rule_id"] == "dry.duplicate-code"]
    rootstr = str(root)
    remove(root)
    return vs, r, rootstr


def _judge(acc: Acc, lang, files, occ, run, k, L, m, pl, deco, mo, vs, r, rootstr):
    case = {"lang": lang, "k": k, "L": L, "m": m, "placement": pl, "decoration": deco, "min_occurrences": mo, "files": files}
    dim = {"lang": "ts/js" if lang != "py" else "py", "decoration": deco, "placement": pl}
    acc.case()
    acc.valid()
    predicted = L >= k and m >= mo
    # back-to-back copies form a periodic text: every rotation of the run is a duplicate as well, so
    # WHICH windows are reported is not determined; coverage is judged by intersection there and
    # the occurrence count / exact extent are not judged
    loose = pl in ("adjacent", "periodic")
    if predicted:
        acc.nt((lang, k, L, m, pl, deco, mo))
    if vs is None:
        acc.fail({"mode": f"exit{r['exit_code']}", **dim}, case, "exit 0/1", r["stderr"][-300:])
        return
    acc.outcome((predicted, len(vs)))
    parsed = []
    for v in vs:
        mm = MSG.search(v["message"])
        if not mm:
            acc.fail({"mode": "message-format", **dim}, case, "Duplicate code (N lines, K occurrences). Also found in: ...", v["message"][:200])
            continue
        refs = []
        for part in mm.group(3).split(", "):
            rm = re.match(r"(.*):(\d+)-(\d+)$", part.strip())
            if rm:
                p = rm.group(1)
                p = p[len(rootstr) + 1 :] if p.startswith(rootstr + "/") else p.lstrip("./")
                refs.append((p, int(rm.group(2)), int(rm.group(3))))
        parsed.append({"file": v["file"], "line": v["line"], "n": int(mm.group(1)), "k": int(mm.group(2)), "refs": refs})
    # silence
    if not predicted:
        if parsed:
            why = "run-shorter-than-min-lines" if L < k else "fewer-occurrences-than-min"
            acc.fail({"mode": "reported-without-duplicate", "why": why, **dim}, case, "no dry violation", [(p["file"], p["line"], p["n"], p["k"]) for p in parsed][:4])
        return
    # soundness + mutuality
    for p in parsed:
        acc.edge()
        if not p["refs"]:
            acc.fail({"mode": "no-other-location-named", **dim}, case, ">= 1 other location", p)
            continue
        mine = norm_lines(lang, files[p["file"]], p["line"], p["line"] + p["n"] - 1)
        for (rf, s, e) in p["refs"]:
            if rf not in files:
                acc.fail({"mode": "named-file-not-in-run", **dim}, case, sorted(files), rf)
                continue
            theirs = norm_lines(lang, files[rf], s, e)
            if loose:
                a2 = [x for x in mine if x.strip("{}();")]
                b2 = [x for x in theirs if x.strip("{}();")]
                n2 = min(len(a2), len(b2))
                same = n2 >= min(k, 1) and a2[:n2] == b2[:n2]
            else:
                same = mine == theirs
            if not same:
                acc.fail({"mode": "named-location-not-identical", **dim}, {**case, "violation": p}, mine, theirs, "normalised text at the violation and at the named location differ")
            hit = any(q["file"] == rf and not (q["line"] + q["n"] - 1 < s or q["line"] > e) for q in parsed)
            if not hit:
                acc.fail({"mode": "named-location-not-covered", **dim}, {**case, "violation": p}, f"a violation intersecting {rf}:{s}-{e}", [(q["file"], q["line"], q["n"]) for q in parsed if q["file"] == rf])
    # completeness
    for (f, first, last) in occ:
        acc.edge()
        if loose:
            hit = any(q["file"] == f and q["line"] <= last and q["line"] + q["n"] - 1 >= first for q in parsed)
        else:
            hit = any(q["file"] == f and first <= q["line"] <= last for q in parsed)
        if not hit:
            acc.fail({"mode": "occurrence-not-covered", **dim, "L_vs_k": "L==k" if L == k else ("L>k" if L > k else "L<k")}, {**case, "occurrence": [f, first, last]}, f"a violation starting in {f}:{first}-{last}", [(q["file"], q["line"], q["n"]) for q in parsed])
    # occurrence count (single-window case only: L == k, so exactly one block per place)
    if L == k and not loose:
        for q in parsed:
            if q["k"] != m:
                acc.fail({"mode": "wrong-occurrence-count", **dim}, {**case, "violation": q}, m, q["k"])
                break
    # nothing outside the planted occurrences
    for q in parsed:
        if not any(q["file"] == f and first <= q["line"] <= last for (f, first, last) in occ):
            acc.fail({"mode": "violation-outside-planted-runs", **dim}, {**case, "violation": q}, occ, (q["file"], q["line"]))


def run_item(item) -> Acc:
    acc = Acc()
    if item["kind"] == "sanity":
        for lang in ("py", "ts", "js"):
            files, occ, run = build(lang, 3, 3, 2, "two-files", "plain")
            vs, r, rootstr = _lint(files, 3, 2)
            acc.case()
            acc.nt(("sanity", lang))
            acc.nt(("sanity2", lang))
            if not vs:
                # the pool is not "ordinary" on this tree: everything else would be vacuous
                acc.fail({"mode": "simplest-duplicate-not-found", "lang": lang}, {"lang": lang, "k": 3, "L": 3, "m": 2, "placement": "two-files", "decoration": "plain", "min_occurrences": 2, "files": files}, "two violations", vs)
        return acc
    lang = item["lang"]
    if item["kind"] == "shapes":
        for k in item["ks"]:
            for L, m, deco, mo in itertools.product((k - 1, k, k + 1), (1, 2, 3), ("plain", "header"), (2, 3)):
                files, occ, run = build_whole(lang, L, m, deco)
                vs, r, rootstr = _lint(files, k, mo)
                _judge(acc, lang, files, occ, run, k, L, m, "whole-file", deco, mo, vs, r, rootstr)
            for reps, m, mo in itertools.product(sorted({k + 1, 2 * k - 1}), (1, 2), (2, 3)):
                files, occ, run = build_periodic(lang, k, reps, m)
                vs, r, rootstr = _lint(files, k, mo)
                _judge(acc, lang, files, occ, run, k, reps, m, "periodic", "plain", mo, vs, r, rootstr)
        return acc
    for (k, L, m, pl, deco, mo) in item["combos"]:
        files, occ, run = build(lang, k, L, m, pl, deco, nfiles=3 if m == 3 and pl == "two-files" else 2)
        vs, r, rootstr = _lint(files, k, mo)
        _judge(acc, lang, files, occ, run, k, L, m, pl, deco, mo, vs, r, rootstr)
    c = item["combos"][-1]
    acc.sample({"lang": lang, "k": c[0], "L": c[1], "m": c[2], "placement": c[3], "decoration": c[4], "min_occurrences": c[5]})
    return acc


def replay_case(case) -> list[dict]:
    acc = Acc()
    files = case["files"]
    for n, t in files.items():
        print(f"--- {n} ---")
        for i, ln in enumerate(t.split("\n"), 1):
            print(f"{i:3d} | {ln}")
    cfg = {"dry": {"enabled": True, "min_duplicate_lines": case["k"], "min_occurrences": case["min_occurrences"]}}
    root = project({**files, ".thailint.yaml": yaml_dump(cfg)})
    r = obs.cli_subprocess(["dry", "--format", "json", "."], root)
    print(f"config {cfg}\nexit={r['exit_code']}\n{r['stdout'][:1500]}")
    remove(root)
    if case["placement"] == "whole-file":
        fs2, occ, run = build_whole(case["lang"], case["L"], case["m"], case["decoration"])
    elif case["placement"] == "periodic":
        fs2, occ, run = build_periodic(case["lang"], case["k"], case["L"], case["m"])
    else:
        fs2, occ, run = build(case["lang"], case["k"], case["L"], case["m"], case["placement"], case["decoration"], nfiles=3 if case["m"] == 3 and case["placement"] == "two-files" else 2)
    vs, r2, rootstr = _lint(fs2, case["k"], case["min_occurrences"])
    _judge(acc, case["lang"], fs2, occ, run, case["k"], case["L"], case["m"], case["placement"], case["decoration"], case["min_occurrences"], vs, r2, rootstr)
    return acc.failures
