"""C08 — results depend only on current file contents and config, not on order or history.

Part 1 (E-hist): ALL histories up to depth d of lint / edit / delete / add / ignore-file events on
one long-lived Linter object; after the last event of every history the result of the lint call is
compared with what a FRESH Linter returns for the same call on the same disk state (differential
oracle).  Part 2: all permutations of the file list (API and CLI), all discovery orders (os.walk
permuted), hash seeds.  Part 3: side effects of every command (project tree, TMPDIR, HOME).
"""

from __future__ import annotations

import itertools
import os
from pathlib import Path

from mc.catalog import load
from mc.core import env, obs
from mc.core.enum import chunks
from mc.core.isolate import project, remove, snapshot, yaml_dump
from mc.core.runner import Acc

PROPERTY = "C08"
LEVEL = "model_checking"
RULE = (
    "part 1: history = sequence of events over {lint dir, lint sub-dir, lint each file, edit a.py, "
    "edit c.py, delete/restore b.py, add/remove sub/e.py}; every history up to the depth bound is "
    "replayed on one long-lived Linter and its final lint is compared with a fresh Linter on the same "
    "disk state; non-trivial = the history contains a lint before a disk change and ends with a lint; "
    "part 2: every permutation / discovery order / hash seed vs the identity order; part 3: every "
    "command x sequential/parallel x DRY storage mode with before/after snapshots"
)
ASSUMPTIONS = [
    "a fresh Linter in a process whose ignore-parser singleton was reset is the reference for `what a fresh object would return`",
    "violations are compared as multisets of (rule id, project-relative file, line, column, message)",
    "configuration files (.thailint.yaml, .thailintignore) are not changed during a history: a Linter loads its configuration when it is created",
]
BOUND = {
    "quick": "part 1: all histories of depth <= 4 over 9 events (7380); part 2: all 120 permutations of 5 files (API + CLI), all discovery orders of a 2-directory tree, hash seeds 0..7 for every command; part 3: every command x {sequential, parallel} + DRY tempfile mode",
    "thorough": "part 1: depth <= 5 (66429 histories); part 2: seeds 0..31; part 3 as quick",
}
MIN_NONTRIVIAL = {"quick": 3000, "thorough": 30000}

DUP = """    total = compute_initial(items)
    total = total + adjust_first(items)
    total = total + adjust_second(items)
    total = total + adjust_third(items)
    return finish(total)
"""
A0 = "def first_total(items):\n" + DUP + "\n\ndef check_a(kind):\n    if kind not in (\"alpha\", \"beta\", \"gamma\"):\n        raise ValueError(kind)\n"
# the edit of a.py removes the duplicated block AND puts an inline suppression on the validation line
A1 = "def first_total(items):\n    return sum(items)\n\n\ndef check_a(kind):\n    if kind not in (\"alpha\", \"beta\", \"gamma\"):  # thailint: ignore[stringly-typed]\n        raise ValueError(kind)\n"
B0 = "def second_total(items):\n" + DUP
C0 = "def timeout():\n    print('x')\n    return 3600\n"
# the edit of c.py adds a file-level suppression to otherwise unchanged code (a.py's edit changes code)
C1 = "# thailint: ignore-file\n" + C0
D0 = "def check_d(kind):\n    if kind not in (\"alpha\", \"beta\", \"gamma\"):\n        raise ValueError(kind)\n"
CFG = {"dry": {"enabled": True, "min_duplicate_lines": 4}}
EVENTS = ["lint_dir", "lint_sub", "lint_a", "lint_b", "lint_c", "edit_a", "edit_c", "toggle_b", "toggle_e"]
LINTS = {"lint_dir": ".", "lint_sub": "sub", "lint_a": "a.py", "lint_b": "b.py", "lint_c": "c.py"}


def _initial():
    return {"a.py": A0, "b.py": B0, "c.py": C0, "sub/d.py": D0, ".thailint.yaml": yaml_dump(CFG)}


def _apply_disk(root: Path, ev: str, st: dict):
    if ev == "edit_a":
        st["a"] ^= 1
        (root / "a.py").write_text(A1 if st["a"] else A0)
    elif ev == "edit_c":
        st["c"] ^= 1
        (root / "c.py").write_text(C1 if st["c"] else C0)
    elif ev == "toggle_b":
        st["b"] ^= 1
        if st["b"]:
            (root / "b.py").unlink()
        else:
            (root / "b.py").write_text(B0)
    elif ev == "toggle_e":
        # a file that did not exist when the Linter was created (third copy of the block)
        # absent -> present with a `# dry: ignore-block` comment above the block -> present without it -> absent
        st["i"] = (st["i"] + 1) % 3
        if st["i"] == 1:
            (root / "sub" / "e.py").write_text("def third_total(items):\n    # dry: ignore-block\n" + DUP)
        elif st["i"] == 2:
            (root / "sub" / "e.py").write_text("def third_total(items):\n" + DUP)
        else:
            (root / "sub" / "e.py").unlink()


def _norm(vs, root):
    return obs.norm([obs.vdict(v) for v in vs], root, root)


def _history(acc: Acc, hist: tuple):
    from src.api import Linter  # noqa: PLC0415

    root = project(_initial())
    st = {"a": 0, "b": 0, "c": 0, "i": 0}
    env.reset_caches()
    with obs.cwd(root):
        long_lived = Linter(project_root=root)
        got = None
        for ev in hist:
            if ev in LINTS:
                got = _norm(long_lived.lint(root / LINTS[ev]), root)
            else:
                _apply_disk(root, ev, st)
        last = hist[-1]
        acc.case()
        if last in LINTS:
            env.reset_caches()
            fresh = Linter(project_root=root)
            ref = _norm(fresh.lint(root / LINTS[last]), root)
            acc.edge()
            acc.valid()
            acc.outcome((len(ref), len(got)))
            lint_before_change = any(e in LINTS for e in hist[:-1])
            if lint_before_change:
                acc.nt(hist)
            if got != ref:
                import collections  # noqa: PLC0415

                cg, cr = collections.Counter(got), collections.Counter(ref)
                extra = sorted((cg - cr).elements())
                missing = sorted((cr - cg).elements())
                rules = sorted({t[0] for t in extra + missing})
                for rid in rules:
                    ex = [t for t in extra if t[0] == rid]
                    mi = [t for t in missing if t[0] == rid]
                    mode = "stale-extra" if ex and not mi else ("stale-missing" if mi and not ex else "stale-different")
                    acc.fail(
                        {"part": "history", "rule": rid, "mode": mode, "call": "lint(file)" if LINTS[last].endswith(".py") else "lint(dir)"},
                        {"history": list(hist)},
                        {"fresh": [list(t) for t in mi][:3]},
                        {"used": [list(t) for t in ex][:3]},
                        "a used Linter returns something else than a fresh one on the same disk state",
                    )
    remove(root)


# ----------------------------------------------------------------------------- part 2/3 helpers


def _perm_project():
    files = {
        "a.py": A0, "b.py": B0, "c.py": C0, "d.py": D0,
        "e.ts": "export function f(x: number) {\n  console.log(x);\n  return x * 3600;\n}\n",
        ".thailint.yaml": yaml_dump(CFG),
    }
    return files


def _many_sites_project():
    """Seven files that all share a constant, a call with a small set of string values, a string
    comparison chain and (four of them) a duplicated block: every cross-file finding then has more
    partner locations than its message lists, so WHICH partners are named is observable."""
    modes = ["fast", "slow", "safe"]
    block = "    alpha = fetch_alpha(job)\n    beta = alpha.transform(job)\n    gamma = combine(alpha, beta)\n    delta = publish(gamma, job)\n"
    files = {}
    for i in range(7):
        # three similar constant names whose similarity is not transitive (the middle one is the hub)
        fuzzy = {0: "HTTP_TIMEOUTS = 30\n", 1: "HTTP_TIMEOUT = 30\n", 2: "TIMEOUT_HTTP = 30\n"}.get(i, "")
        body = f"MAX_RETRY_COUNT = 5\n{fuzzy}\n\ndef run_{i}(job, level):\n    configure_mode(\"{modes[i % 3]}\")\n"
        if i < 4:
            body += block
        body += f"    if level == \"{modes[i % 3]}\" or level == \"{modes[(i + 1) % 3]}\":\n        return {i}\n    return job\n"
        files[f"site{i}.py"] = body
    # one block shared by a .js and a .ts file, with different per-language occurrence thresholds
    shared = "  const alpha = fetchAlpha(job);\n  const beta = alpha.transform(job);\n  const gamma = combine(alpha, beta);\n  const delta = publish(gamma, job);\n  return finish(delta);\n"
    files["alpha.js"] = "function runAlpha(job) {\n" + shared + "}\n"
    files["beta.ts"] = "export function runBeta(job: Job) {\n" + shared + "}\n"
    files[".thailint.yaml"] = yaml_dump({"dry": {"enabled": True, "min_duplicate_lines": 4, "detect_duplicate_constants": True, "javascript": {"min_occurrences": 2}, "typescript": {"min_occurrences": 3}}})
    return files


def _walk_permuter(perm_dirs, perm_files):
    real = os.walk

    def walk(top, *a, **kw):
        for r, dirs, files in real(top, *a, **kw):
            d2 = perm_dirs(sorted(dirs))
            dirs[:] = d2
            yield r, dirs, perm_files(sorted(files))

    return real, walk


PROBES = {
    # pairs in which one file defines a name/alias that would change the reading of the other if
    # per-file analyzer state leaked from file to file
    "probe_alias.py": "import re as regex\n\n\ndef scan(lines):\n    for line in lines:\n        regex.search('x+', line)\n",
    "probe_regex.py": "import regex\n\n\ndef scan(lines):\n    for line in lines:\n        regex.search('x+', line)\n",
    "probe_from_re.py": "from re import search\n\n\ndef scan(lines):\n    for line in lines:\n        search('x+', line)\n",
    "probe_local_search.py": "def search(pattern, text):\n    return pattern in text\n\n\ndef scan(lines):\n    for line in lines:\n        search('x', line)\n",
    "probe_list.py": "def collect(items):\n    result = []\n    for item in items:\n        result += [item]\n    return result\n",
    "probe_str.py": "def build(items):\n    result = \"\"\n    for item in items:\n        result += str(item)\n    return result\n",
    "probe_logger.py": "import logging\n\nprint = logging.getLogger(__name__).info\n\n\ndef show(value):\n    print(value)\n",
    "probe_print.py": "def show(value):\n    print(value)\n",
    "probe_tool": "#!/usr/bin/env python3\nimport sys\n\n\ndef main(argv):\n    print(argv)\n    if len(argv) > 7:\n        return 42\n    return 0\n",
    "probe_runner": "#!/bin/sh\n# def main(argv): print(argv)\necho 42\nexit 7\n",
    "probe_const_a.ts": "const regex = RegExp;\nexport function scan(lines: string[]) {\n  for (const l of lines) {\n    new regex('x+').test(l);\n  }\n}\n",
    "probe_const_b.ts": "export function scan(lines: string[]) {\n  let out = '';\n  for (const l of lines) {\n    out += l;\n  }\n  return out;\n}\n",
}


def _pair_corpus():
    files = dict(PROBES)
    zoo, _cfg, index = load.zoo_project()
    for (name, lang), paths in index.items():
        if lang == "python" and not load.linters()[name].get("cross_file") and len(paths) == 1:
            files[f"z_{name.replace('-', '_')}.py"] = zoo[paths[0]]
    return files


def items(tier: str, seed: int):
    out = []
    depth = 4 if tier == "quick" else 5
    hs = [h for d in range(1, depth + 1) for h in itertools.product(EVENTS, repeat=d)]
    for block in chunks(hs, 80):
        out.append({"kind": "hist", "hists": block})
    names = ["a.py", "b.py", "c.py", "d.py", "e.ts"]
    perms = list(itertools.permutations(names))
    for block in chunks(perms, 20):
        out.append({"kind": "perm", "perms": block})
    out.append({"kind": "walk"})
    out.append({"kind": "perm-many"})
    out.append({"kind": "repeat-many", "modules": 40, "calls": 6 if tier == "quick" else 12})
    corpus = sorted(_pair_corpus())
    pairs = [(a, b) for a in corpus for b in corpus if a != b]
    for block in chunks(pairs, 40):
        out.append({"kind": "pairs", "pairs": block})
    seeds = range(8) if tier == "quick" else range(32)
    for cmd_block in chunks(load.ALL_COMMANDS, 2):
        out.append({"kind": "seed", "commands": cmd_block, "seeds": list(seeds)})
    for cmd_block in chunks(load.ALL_COMMANDS, 3):
        out.append({"kind": "effects", "commands": cmd_block})
    return out


def run_item(item) -> Acc:
    acc = Acc()
    k = item["kind"]
    if k == "hist":
        for h in item["hists"]:
            _history(acc, tuple(h))
        acc.sample({"history": list(item["hists"][-1]), "oracle": "final lint == fresh Linter on same disk state"})
    elif k == "perm":
        from src.orchestrator.core import Orchestrator  # noqa: PLC0415

        files = _perm_project()
        root = project(files)
        names0 = ["a.py", "b.py", "c.py", "d.py", "e.ts"]
        env.reset_caches()
        ref = _norm(Orchestrator(project_root=root).lint_files([root / n for n in names0]), root)
        refcli = {}
        for cmd in ("dry", "stringly-typed", "magic-numbers"):
            r = obs.cli_json([cmd, *names0], root)
            refcli[cmd] = (r["exit_code"], obs.norm(r["violations"] or [], root, root))
        for perm in item["perms"]:
            env.reset_caches()
            got = _norm(Orchestrator(project_root=root).lint_files([root / n for n in perm]), root)
            acc.case()
            acc.edge()
            acc.valid()
            if ref:
                acc.nt(("perm", perm))
            if got != ref:
                rules = sorted({t[0] for t in set(got) ^ set(ref)})
                for rid in rules or ["<multiplicity>"]:
                    acc.fail({"part": "order", "via": "lint_files", "rule": rid}, {"order": list(perm)}, [list(t) for t in ref if t[0] == rid][:4], [list(t) for t in got if t[0] == rid][:4], "result depends on the order in which files are passed")
            for cmd in refcli:
                r = obs.cli_json([cmd, *perm], root)
                g = (r["exit_code"], obs.norm(r["violations"] or [], root, root))
                acc.case()
                acc.edge()
                if g != refcli[cmd]:
                    acc.fail({"part": "order", "via": "cli", "command": cmd}, {"order": list(perm), "cli": cmd}, refcli[cmd][1][:4], g[1][:4], "CLI result depends on argument order")
        remove(root)
    elif k == "pairs":
        # per-file rules: what is reported for b must not depend on a having been linted first
        from src.orchestrator.core import Orchestrator  # noqa: PLC0415

        corpus = _pair_corpus()
        root = project(corpus)
        # reference: the second file alone in its own fresh interpreter (no history of any kind)
        bs = sorted({b for _a, b in item["pairs"]})
        fresh = obs.api_subprocess(root, None, [[b] for b in bs])
        alone = {}
        for b, vs in zip(bs, fresh):
            if vs is None:
                acc.fail({"part": "order", "via": "fresh-process-reference", "mode": "no-output"}, {"first": None, "second": b, "pair": True}, "JSON", None)
                vs = []
            alone[b] = [t for t in obs.norm(vs, root, root) if not t[0].startswith(("dry", "stringly"))]
        for a, b in item["pairs"]:
            env.reset_caches()
            both = [t for t in _norm(Orchestrator(project_root=root).lint_files([root / a, root / b]), root) if t[1] == b and not t[0].startswith(("dry", "stringly"))]
            acc.case()
            acc.edge()
            acc.valid()
            if alone[b]:
                acc.nt(("pair", a, b))
            if both != alone[b]:
                rules = sorted({t[0] for t in set(both) ^ set(alone[b])})
                for rid in rules or ["<multiplicity>"]:
                    acc.fail({"part": "order", "via": "preceding-file", "rule": rid}, {"first": a, "second": b, "pair": True, "earlier_pairs_in_this_process": [list(x) for x in item["pairs"][: item["pairs"].index((a, b) if (a, b) in item["pairs"] else [a, b])]]}, [list(t) for t in alone[b] if t[0] == rid][:3], [list(t) for t in both if t[0] == rid][:3], f"findings for {b} change when {a} is linted before it in the same run")
        remove(root)
    elif k == "walk":
        from src.orchestrator.core import Orchestrator  # noqa: PLC0415

        files = {"p/a.py": A0, "p/b.py": B0, "q/c.py": C0, "q/d.py": D0, "r/e.ts": _perm_project()["e.ts"], ".thailint.yaml": yaml_dump(CFG)}
        root = project(files)
        env.reset_caches()
        ref = _norm(Orchestrator(project_root=root).lint_directory(root), root)
        for pd in itertools.permutations(range(4)):  # .git p q r
            for pf in ((0, 1), (1, 0)):
                real, walk = _walk_permuter(lambda ds, pd=pd: [ds[i] for i in pd if i < len(ds)], lambda fs, pf=pf: [fs[i] for i in pf if i < len(fs)] + fs[2:])
                os.walk = walk
                try:
                    env.reset_caches()
                    got = _norm(Orchestrator(project_root=root).lint_directory(root), root)
                finally:
                    os.walk = real
                acc.case()
                acc.edge()
                acc.valid()
                if ref:
                    acc.nt(("walk", pd, pf))
                if got != ref:
                    rules = sorted({t[0] for t in set(got) ^ set(ref)})
                    for rid in rules or ["<multiplicity>"]:
                        acc.fail({"part": "order", "via": "discovery", "rule": rid}, {"dir_perm": list(pd), "file_perm": list(pf)}, [list(t) for t in ref if t[0] == rid][:4], [list(t) for t in got if t[0] == rid][:4], "result depends on directory discovery order")
        remove(root)
    elif k == "repeat-many":
        # many modules with the same if/elif chain, linted again and again by ONE Linter: every call
        # must return what a fresh Linter returns (bookkeeping keyed by object identity must not
        # survive the objects it describes)
        from src.api import Linter  # noqa: PLC0415

        chain = "def route_{i}(kind, payload):\n    if kind == \"create\":\n        return make(payload)\n    elif kind == \"update\":\n        return change(payload)\n    elif kind == \"delete\":\n        return drop(payload)\n    return None\n"
        files = {f"pkg/mod_{i:02d}.py": chain.replace("{i}", str(i)) for i in range(item["modules"])}
        root = project(files)
        env.reset_caches()
        with obs.cwd(root):
            fresh = _norm(Linter(project_root=root).lint(root), root)
            long_lived = Linter(project_root=root)
            for call in range(item["calls"]):
                got = _norm(long_lived.lint(root), root)
                acc.case()
                acc.edge()
                acc.valid()
                if fresh:
                    acc.nt(("repeat-many", call))
                if got != fresh:
                    rules = sorted({t[0] for t in set(map(tuple, got)) ^ set(map(tuple, fresh))})
                    for rid in rules:
                        acc.fail({"part": "repetition", "via": "many-modules-one-linter", "rule": rid}, {"repeat_many": True, "modules": item["modules"], "call": call}, len([t for t in fresh if t[0] == rid]), len([t for t in got if t[0] == rid]), f"call {call + 1} on the same Linter differs from a fresh Linter")
                    break
        remove(root)
    elif k == "perm-many":
        from src.orchestrator.core import Orchestrator  # noqa: PLC0415

        files = _many_sites_project()
        root = project(files)
        names = [f"site{i}.py" for i in range(7)] + ["alpha.js", "beta.ts"]
        orders = [names[i:] + names[:i] for i in range(len(names))] + [list(reversed(names))]
        orders += [names[:i] + [names[i + 1], names[i]] + names[i + 2 :] for i in range(len(names) - 1)]

        def lib(order):
            env.reset_caches()
            return _norm(Orchestrator(project_root=root).lint_files([root / n for n in order]), root)

        ref = lib(names)
        for order in orders[1:]:
            got = lib(order)
            acc.case()
            acc.edge()
            acc.valid()
            if ref:
                acc.nt(("perm-many", tuple(order)))
            if got != ref:
                rules = sorted({t[0] for t in set(map(tuple, got)) ^ set(map(tuple, ref))})
                for rid in rules:
                    a = [t for t in ref if t[0] == rid]
                    b = [t for t in got if t[0] == rid]
                    same_places = sorted(t[:4] for t in a) == sorted(t[:4] for t in b)
                    acc.fail({"part": "order", "via": "file-list", "rule": rid, "differs_in": "message-only" if same_places else "violations"}, {"many_sites": True, "order": order}, [list(t) for t in a][:2], [list(t) for t in b][:2], "lint_files on the same seven files in another order")
        for cmd in ("dry", "stringly-typed"):
            r0 = obs.cli_json([cmd, *names], root)
            base = (r0["exit_code"], obs.norm(r0["violations"] or [], root, root))
            for order in (orders[3], orders[7]):
                r = obs.cli_json([cmd, *order], root)
                g = (r["exit_code"], obs.norm(r["violations"] or [], root, root))
                acc.case()
                acc.edge()
                if g != base:
                    acc.fail({"part": "order", "via": "cli-file-list", "command": cmd}, {"many_sites": True, "order": order, "cli": cmd}, base[1][:2], g[1][:2])
        remove(root)
    elif k == "seed":
        zoo, cfg, _idx = load.zoo_project()
        cfg = load.deep_merge(cfg, CFG)
        root = project({**zoo, **{("sites/" + n): c for n, c in _many_sites_project().items() if n.endswith(".py")}, "dupa.py": A0, "dupb.py": B0, ".thailint.yaml": yaml_dump(cfg)})
        for cmd in item["commands"]:
            base = None
            for s in item["seeds"]:
                r = obs.cli_json([cmd, "."], root, sub=True, environ={"PYTHONHASHSEED": str(s)})
                g = (r["exit_code"], obs.norm(r["violations"] or [], root, root))
                acc.case()
                acc.valid()
                if base is None:
                    base = g
                    continue
                acc.edge()
                if g[1]:
                    acc.nt(("seed", cmd, s))
                if g != base:
                    acc.fail({"part": "hashseed", "command": cmd}, {"cli": cmd, "seed": s}, base[1][:3], g[1][:3], f"output differs between PYTHONHASHSEED={item['seeds'][0]} and {s}")
        remove(root)
    elif k == "effects":
        zoo, cfg, _idx = load.zoo_project()
        for cmd in item["commands"]:
            modes = [("seq", [], cfg), ("par", ["--parallel"], cfg)]
            if cmd == "dry":
                modes.append(("seq-tempfile", [], load.deep_merge(cfg, {"dry": {"enabled": True, "storage_mode": "tempfile"}})))
                modes.append(("par-tempfile", ["--parallel"], load.deep_merge(cfg, {"dry": {"enabled": True, "storage_mode": "tempfile"}})))
            for mode, flags, c in modes:
                base = env.fresh_dir("fx")
                root = project({**zoo, "dupa.py": A0, "dupb.py": B0, ".thailint.yaml": yaml_dump(load.deep_merge(c, CFG))}, parent=base)
                tmpd, home = base / "tmpdir", base / "home"
                tmpd.mkdir()
                home.mkdir()
                before = {"project": snapshot(root), "tmp": snapshot(tmpd), "home": snapshot(home)}
                r = obs.cli_subprocess([cmd, *flags, "."], root, environ={"TMPDIR": str(tmpd), "TEMP": str(tmpd), "TMP": str(tmpd)}, home=home)
                after = {"project": snapshot(root), "tmp": snapshot(tmpd), "home": snapshot(home)}
                acc.case()
                acc.edge()
                acc.valid()
                acc.nt(("effects", cmd, mode))
                if r["exit_code"] not in (0, 1):
                    acc.fail({"part": "effects", "command": cmd, "mode": f"exit{r['exit_code']}"}, {"cli": cmd, "flags": flags}, "exit 0/1", r["stderr"][-300:])
                for area in before:
                    if before[area] != after[area]:
                        created = sorted(set(after[area]) - set(before[area]))
                        deleted = sorted(set(before[area]) - set(after[area]))
                        changed = sorted(p for p in before[area] if p in after[area] and before[area][p] != after[area][p])
                        acc.fail({"part": "effects", "command": cmd, "area": area, "run": mode}, {"cli": cmd, "flags": flags}, "nothing created, modified or deleted", {"created": created[:5], "deleted": deleted[:5], "changed": changed[:5]})
                remove(base)
    return acc


def replay_case(case) -> list[dict]:
    acc = Acc()
    if "history" in case:
        print("history on one long-lived Linter:", " ; ".join(case["history"]))
        _history(acc, tuple(case["history"]))
    elif "order" in case and "cli" not in case:
        a = run_item({"kind": "perm", "perms": [tuple(case["order"])]})
        return a.failures
    elif "order" in case:
        a = run_item({"kind": "perm", "perms": [tuple(case["order"])]})
        return [f for f in a.failures if f["case"].get("cli") == case["cli"]]
    elif case.get("repeat_many"):
        return run_item({"kind": "repeat-many", "modules": case["modules"], "calls": case["call"] + 1}).failures
    elif case.get("many_sites"):
        return [f for f in run_item({"kind": "perm-many"}).failures if f["case"].get("order") == case.get("order") and f["case"].get("cli") == case.get("cli")]
    elif case.get("pair"):
        hist = [tuple(x) for x in case.get("earlier_pairs_in_this_process", [])] + [(case["first"], case["second"])]
        return [f for f in run_item({"kind": "pairs", "pairs": hist}).failures if f["case"]["first"] == case["first"] and f["case"]["second"] == case["second"]]
    elif "dir_perm" in case:
        return run_item({"kind": "walk"}).failures
    elif "seed" in case:
        return run_item({"kind": "seed", "commands": [case["cli"]], "seeds": [0, case["seed"]]}).failures
    elif "flags" in case:
        return [f for f in run_item({"kind": "effects", "commands": [case["cli"]]}).failures if f["case"].get("flags") == case["flags"]]
    return acc.failures
