"""C20 — config tooling never loses user settings and only writes validated values.

E-hist: explicit-state breadth-first search.  A state is the bytes of one configuration file
(or its absence); every transition runs a real CLI command (`init-config`, `config set|get|
reset`) in an isolated directory; invariants are evaluated on every transition.  States are
de-duplicated on exact bytes, so no abstraction can merge states with different futures.
"""

from __future__ import annotations

import hashlib
import itertools
import json
import re
import math

import yaml

from mc.core import env, obs
from mc.core.isolate import project, remove
from mc.core.runner import Acc

PROPERTY = "C20"
LEVEL = "model_checking"
RULE = (
    "state = bytes of the config file; transitions = real CLI commands (init-config x 3 presets "
    "with/without --force, config set over a value menu, config reset, config get as observer); "
    "BFS with exact-bytes de-duplication from every initial state (absent, each preset's file, "
    "every hand-written YAML shape); non-trivial = a transition whose invariant has a non-empty "
    "premise (existing settings to preserve, a value to reject/accept); distinct by (state, command)"
)
ASSUMPTIONS = [
    "the accepted value of `config set` is the one the command echoes (`Set k = v`)",
    "`stays in effect` is judged through the linters' own loader (parse_config_file): every pre-existing (section, key) must load with the same value after the command",
    "commands are always given an explicit file (--output / --config); the default-location behaviour is exercised once through a fresh process",
]
BOUND = {
    "quick": "hand-written shapes: all subsets of 3 sections x {hyphen,underscore} x {block,flow} x comments x extra keys x final newline x document marker (512) -> init-config (3 presets) + idempotence + set/init interleavings of length 2; full BFS depth 2 over the whole command menu from 6 representative states",
    "thorough": "same shapes with interleavings of length 3; full BFS depth 3 from 6 representative states",
}
MIN_NONTRIVIAL = {"quick": 4000, "thorough": 20000}
PRESETS = ["strict", "standard", "lenient"]
F = "cfg.yaml"

# ------------------------------------------------------------------ hand-written initial states

SECTIONS = {
    "nesting": {"max_nesting_depth": 2},
    "magic-numbers": {"allowed_numbers": [7], "max_small_integer": 2},
    "dry": {"enabled": True, "min_duplicate_lines": 9},
}


def _emit_section(name, body, style):
    if style == "flow":
        inner = ", ".join(f"{k}: {json.dumps(v)}" for k, v in body.items())
        return [f"{name}: {{{inner}}}"]
    out = [f"{name}:"]
    for k, v in body.items():
        out.append(f"  {k}: {json.dumps(v)}")
    return out


def handwritten(subset, spelling, style, comments, extra, final_nl, docstart, null=None):
    lines = []
    if docstart:
        lines.append("---")
    if comments:
        lines.append("# my project configuration (keep!)")
    if style == "topflow":
        # the whole document as one flow mapping
        body = {}
        for name in subset:
            body[name.replace("-", "_") if spelling == "underscore" else name] = SECTIONS[name]
        if extra:
            body["custom_key"] = 41
        text = "\n".join(lines + [json.dumps(body)])
        return text + ("\n" if final_nl else "")
    for name in subset:
        nm = name.replace("-", "_") if spelling == "underscore" else name
        if comments:
            lines.append(f"# tuned {name} by hand")
        if name == null:
            # a section that is present but holds nothing (all its settings commented out)
            lines += [f"{nm}:"] + [f"  # {k}: {json.dumps(v)}" for k, v in SECTIONS[name].items()]
        else:
            lines += _emit_section(nm, SECTIONS[name], style)
        if comments:
            lines.append("")
    if extra:
        lines.append("custom_key: 41")
        lines.append("team: {name: core, size: 3}")
    if comments:
        lines.append("# end of file")
    text = "\n".join(lines)
    if final_nl:
        text += "\n"
    return text


EMPTY_SHAPES = ["{}\n", "{}  # nothing configured yet\n", "---\n{}\n", "# only a comment\n", "---\n", "---\n...\n", "\n"]


def all_shapes():
    names = list(SECTIONS)
    for r in range(len(names) + 1):
        for subset in itertools.combinations(names, r):
            for spelling, style, comments, extra, final_nl, docstart in itertools.product(
                ["hyphen", "underscore"], ["block", "flow", "topflow"], [False, True], [False, True], [True, False], [False, True]
            ):
                if not subset and not extra:
                    continue  # an empty / marker-only file is not "an existing valid configuration"
                yield {"subset": list(subset), "spelling": spelling, "style": style, "comments": comments, "extra": extra, "final_nl": final_nl, "docstart": docstart}
                if style == "block" and final_nl and not docstart:
                    for null in subset:
                        yield {"subset": list(subset), "spelling": spelling, "style": "block", "comments": comments, "extra": extra, "final_nl": True, "docstart": False, "null": null}


SET_MENU = [
    ("log_level", "DEBUG"), ("log_level", "bogus"), ("log_level", "debug"),
    ("greeting", "Hi"), ("greeting", "007"), ("greeting", "1e3"), ("greeting", "true"),
    ("greeting", "a: b"), ("greeting", "x # y"), ("greeting", 'q"uo\'te'), ("greeting", "line1\nline2"),
    ("greeting", "ไทย"), ("greeting", ""), ("greeting", "nan"),
    ("max_retries", "5"), ("max_retries", "-1"), ("max_retries", "1.5"), ("max_retries", "many"),
    ("timeout", "2.5"), ("timeout", "0"), ("timeout", "-1"), ("timeout", "soon"),
    ("app_name", "demo"), ("app_name", ""), ("app_name", "   "),
    ("output_format", "json"), ("output_format", "xml"),
    ("new_key", "v1"),
    # values the command line converts to something falsy, and non-finite numbers
    ("log_level", "false"), ("log_level", "0"), ("log_level", ""), ("output_format", "false"), ("output_format", "0.0"), ("output_format", ""),
    ("timeout", "inf"), ("timeout", "nan"), ("max_retries", "0"), ("max_retries", "true"),
    # the same settings spelled with a hyphen (the loader reads both spellings as one key)
    ("greeting", "Dear "), ("greeting", "  >> hello"), ("greeting", "\tTabbed"), ("greeting", "wait\x85done"), ("greeting", "line\u2028sep"),
    ("max_retries", "9007199254740993"), ("timeout", "2.0"), ("timeout", "1e2"), ("greeting", "2.0"),
    ("log-level", "DEBUG"), ("log-level", "bogus"), ("output-format", "xml"), ("output-format", "json"), ("max-retries", "-1"), ("app-name", ""), ("new-key", "v2"),
]

# the documented domains of the two enumerated settings (the tool's own error messages name them;
# the numeric settings are left to the implementation's validator: whether nan or true is `a
# positive number` / `a non-negative integer` is not something the statement decides); kept here, independent of the
# implementation's validator, so that a weakened validator cannot vouch for itself
DOMAIN = {
    "log_level": lambda v: isinstance(v, str) and v in ("DEBUG", "INFO", "WARNING", "ERROR", "CRITICAL"),
    "output_format": lambda v: isinstance(v, str) and v in ("text", "json", "yaml"),
}


# ------------------------------------------------------------------ helpers


def _is_number(text: str) -> bool:
    for conv in (int, float):
        try:
            conv(text)
            return True
        except ValueError:
            pass
    return False


def _read(root):
    p = root / F
    return p.read_bytes() if p.exists() else None


def _write(root, data):
    p = root / F
    if data is None:
        p.unlink(missing_ok=True)
    else:
        p.write_bytes(data)


def _loader_view(data: bytes | None):
    """What the linters' loader sees (normalised keys) or an exception string."""
    if data is None:
        return {}
    from src.core.config_parser import ConfigParseError, parse_config_file  # noqa: PLC0415

    tmp = env.fresh_dir("v") / "view.yaml"
    tmp.write_bytes(data)
    try:
        v = parse_config_file(tmp)
    except ConfigParseError as e:
        v = f"ConfigParseError: {str(e)[:200]}"
    except Exception as e:  # noqa: BLE001
        v = f"{type(e).__name__}: {str(e)[:200]}"
    remove(tmp.parent)
    return v


def _valid_mapping(data: bytes | None) -> bool:
    if data is None:
        return False
    try:
        d = yaml.safe_load(data.decode("utf-8"))
    except Exception:  # noqa: BLE001
        return False
    return isinstance(d, dict)


def _leaves(d, prefix=()):
    out = {}
    if isinstance(d, dict):
        for k, v in d.items():
            out.update(_leaves(v, prefix + (str(k),)))
        if not d:
            out[prefix] = {}
    else:
        out[prefix] = d
    return out


def _same(a, b) -> bool:
    if isinstance(a, float) and isinstance(b, float) and math.isnan(a) and math.isnan(b):
        return True
    return type(a) is type(b) and a == b


def _h(data):
    return "absent" if data is None else hashlib.sha1(data).hexdigest()[:12]  # noqa: S324


def _case(state, cmds):
    return {"initial": None if state is None else state.decode("utf-8", "replace"), "commands": cmds}


LINT_CMDS = [
    "nesting", "magic-numbers", "dry", "srp", "file-placement", "improper-logging", "print-statements",
    "method-property", "stateless-class", "pipeline", "lbyl", "perf", "string-concat-loop",
    "regex-in-loop", "lazy-ignores", "file-header", "stringly-typed", "unwrap-abuse", "clone-abuse",
    "blocking-async",
]


# ------------------------------------------------------------------ transitions with invariants


def t_init(acc: Acc, root, preset: str, force: bool, hist):
    before = _read(root)
    argv = ["init-config", "--non-interactive", "--preset", preset, "--output", F] + (["--force"] if force else [])
    r = obs.cli_inproc(argv, root)
    after = _read(root)
    cmd = " ".join(argv)
    acc.case()
    acc.edge()
    case = _case(hist["initial"], hist["cmds"] + [cmd])
    if before is not None and not force and _valid_mapping(before):
        acc.valid()
        acc.nt((_h(before), cmd))
        shape = hist.get("shape_sig", {})
        # (a) result is valid YAML
        tops = re.findall(r"^([A-Za-z_][\w-]*)\s*:", (after or b"").decode("utf-8", "replace"), flags=re.M)
        dup = sorted({t for t in tops if tops.count(t) > 1})
        if dup and _valid_mapping(after) and not (after or b"").lstrip().startswith(b"{"):
            # YAML requires mapping keys to be unique; safe_load silently keeps the last one
            acc.fail({"inv": "merge-result-valid-yaml", "why": "duplicate-top-level-key", **shape}, case, "unique top-level keys", dup)
        if not _valid_mapping(after):
            acc.fail({"inv": "merge-result-valid-yaml", **shape}, case, "a YAML mapping", (after or b"")[:300].decode("utf-8", "replace"), f"exit={r['exit_code']} {r['stderr'][-200:]}")
        else:
            # (b) every pre-existing setting keeps its value as the linters load it
            vb, va = _loader_view(before), _loader_view(after)
            if isinstance(va, str) or isinstance(vb, str):
                acc.fail({"inv": "merge-result-loads", **shape}, case, "loads", {"before": vb if isinstance(vb, str) else "ok", "after": va if isinstance(va, str) else "ok"})
            else:
                lb, la = _leaves(vb), _leaves(va)
                lost = {".".join(k): (v, la.get(k, "<missing>")) for k, v in lb.items() if k not in la or not _same(la[k], v)}
                if lost:
                    acc.fail({"inv": "settings-preserved", "sections": sorted({k.split(".")[0] for k in lost}), **shape}, case, {k: v[0] for k, v in lost.items()}, {k: v[1] for k, v in lost.items()}, "pre-existing settings changed as seen by the linters' loader")
            # (c) only adds: the original text is still there, byte for byte
            if after is not None and before.rstrip() not in after and not hist.get("noted_text"):
                acc.stat("merge_rewrote_existing_text")
        # (d) idempotence
        r2 = obs.cli_inproc(argv, root)
        again = _read(root)
        acc.edge()
        if again != after:
            acc.fail({"inv": "init-config-idempotent", **shape}, case, "second run changes nothing", {"len_after_first": len(after or b""), "len_after_second": len(again or b"")}, f"exit={r2['exit_code']}")
            _write(root, after)
    elif before is None or force:
        # fresh / forced file: parses and is accepted by every linter command
        acc.valid()
        acc.nt(("generate", preset, force))
        if not _valid_mapping(after) or r["exit_code"] != 0:
            acc.fail({"inv": "generated-valid-yaml", "preset": preset}, case, "valid YAML, exit 0", {"exit": r["exit_code"], "head": (after or b"")[:200].decode("utf-8", "replace")})
        elif not hist.get("skip_accept"):
            _accepted_by_all(acc, root, case, preset)
    return r


def _accepted_by_all(acc: Acc, root, case, preset):
    (root / "app").mkdir(exist_ok=True)
    (root / "app" / "m.py").write_text("def f(a):\n    return a\n")
    (root / "app" / "m.rs").write_text("fn f() {}\n")
    (root / "app" / "m.ts").write_text("export const a = 1;\n")
    for c in LINT_CMDS:
        r = obs.cli_inproc([c, "--config", F, "app"], root)
        acc.case()
        acc.edge()
        if r["exit_code"] not in (0, 1):
            acc.fail({"inv": "generated-accepted-by", "command": c}, {**case, "lint": c}, "exit 0 or 1", {"exit": r["exit_code"], "stderr": r["stderr"][-300:]}, f"preset {preset}")


def t_set(acc: Acc, root, key: str, value: str, hist):
    before = _read(root)
    argv = ["--config", F, "config", "set", key, value]
    r = obs.cli_inproc(argv, root)
    after = _read(root)
    cmd = f"--config {F} config set {key!r} {value!r}"
    case = _case(hist["initial"], hist["cmds"] + [cmd])
    acc.case()
    acc.edge()
    acc.valid()
    acc.nt((_h(before), cmd))
    sig_v = {"key": key, "value": value}
    if r["exit_code"] != 0:
        if after != before:
            acc.fail({"inv": "rejected-leaves-file-unchanged", **sig_v}, case, "bytes unchanged", {"before": _h(before), "after": _h(after)}, r["stderr"][-200:])
            _write(root, before)
        return r
    # accepted: echoed value
    out = r["stdout"]
    pref = f"Set {key} = "
    if not out.startswith(pref) and out.startswith(f"Set {key.replace('-', '_')} = "):
        pref = f"Set {key.replace('-', '_')} = "  # the setting's stored spelling
    if not out.startswith(pref):
        acc.fail({"inv": "set-echo", **sig_v}, case, pref + "<value>", out[:200])
        return r
    accepted = out[len(pref):]
    accepted = accepted[:-1] if accepted.endswith("\n") else accepted
    # a value that is not a number / boolean spelling is a string and is stored AS GIVEN
    plain = value.strip().lower() not in ("true", "false") and not _is_number(value)
    if plain and accepted != value and not any(0xDC80 <= ord(ch) <= 0xDCFF for ch in value):
        acc.fail({"inv": "accepted-string-differs-from-input", "key": key, "how": "outer-whitespace" if accepted == value.strip() else "other"}, case, repr(value), repr(accepted))
    g = obs.cli_inproc(["--config", F, "config", "get", key], root)
    acc.edge()
    got = g["stdout"][:-1] if g["stdout"].endswith("\n") else g["stdout"]
    if g["exit_code"] != 0 or got != accepted:
        acc.fail({"inv": "get-returns-accepted", **sig_v}, case, accepted, {"exit": g["exit_code"], "stdout": g["stdout"][:200], "stderr": g["stderr"][-200:]})
    # written value passes validation and round-trips through YAML and JSON with the same type
    from src.config import load_config, save_config, validate_config  # noqa: PLC0415

    try:
        cfg = load_config(root / F)
        ok, errs = validate_config(cfg)
        if not ok:
            acc.fail({"inv": "written-config-valid", **sig_v}, case, "valid", errs)
        v0 = cfg.get(key, cfg.get(key.replace("-", "_")))
        # a numeral is stored as the number it spells, with the type it spells (2.0 is a float)
        if _is_number(value) and value.strip() == value and value.lower() not in ("nan", "inf", "-inf", "infinity"):
            try:
                want_num = int(value)
            except ValueError:
                want_num = float(value)
            if not (type(v0) is type(want_num) and v0 == want_num):
                acc.fail({"inv": "accepted-number-differs-from-input", "key": key.replace("-", "_"), "kind": "integer" if isinstance(want_num, int) else "float"}, case, repr(want_num), repr(v0))
        dkey = key.replace("-", "_")
        if dkey in DOMAIN and not DOMAIN[dkey](v0):
            acc.fail({"inv": "accepted-value-outside-documented-domain", "key": dkey, "spelling": "hyphen" if "-" in key else "underscore", "value_class": "falsy" if not v0 else ("non-finite" if isinstance(v0, float) else "other")}, case, f"a documented value for {key}", repr(v0))
        for ext in (".yaml", ".json"):
            tmp = root / f"rt{ext}"
            save_config(cfg, tmp)
            v1 = load_config(tmp).get(key, load_config(tmp).get(key.replace("-", "_")))
            tmp.unlink()
            acc.edge()
            if not _same(v0, v1):
                acc.fail({"inv": "round-trip", "format": ext, **sig_v}, case, repr(v0), repr(v1))
        if str(v0) != accepted:
            acc.fail({"inv": "stored-equals-accepted", **sig_v}, case, accepted, repr(v0))
    except Exception as e:  # noqa: BLE001
        acc.fail({"inv": "written-config-loads", **sig_v}, case, "loads", f"{type(e).__name__}: {str(e)[:200]}")
    return r


def t_reset(acc: Acc, root, hist):
    r = obs.cli_inproc(["--config", F, "config", "reset", "--yes"], root)
    acc.case()
    acc.edge()
    after = _read(root)
    if r["exit_code"] != 0 or not _valid_mapping(after):
        acc.fail({"inv": "reset-writes-valid"}, _case(hist["initial"], hist["cmds"] + ["config reset --yes"]), "exit 0 and a valid file", {"exit": r["exit_code"]})
    return r


# ------------------------------------------------------------------ items


def items(tier: str, seed: int):
    out = []
    shapes = list(all_shapes())
    for i in range(0, len(shapes), 8):
        out.append({"kind": "shapes", "shapes": shapes[i : i + 8], "depth": 2 if tier == "quick" else 3})
    reps = ["absent", "preset:strict", "preset:standard", "preset:lenient", "hand:hyphen", "hand:underscore"]
    depth = 2 if tier == "quick" else 3
    for rep in reps:
        # split the first BFS level over work items
        for first in range(len(_menu())):
            out.append({"kind": "bfs", "rep": rep, "first": first, "depth": depth})
    out.append({"kind": "default-location"})
    out.append({"kind": "empty-configs"})
    out.append({"kind": "edited-generated"})
    out.append({"kind": "banner-layouts"})
    out.append({"kind": "file-names"})
    return out


def _menu():
    m = [("init", p, False) for p in PRESETS] + [("init", p, True) for p in PRESETS]
    m += [("set", k, v) for k, v in SET_MENU]
    m.append(("reset",))
    return m


def _apply(acc, root, op, hist):
    if op[0] == "init":
        t_init(acc, root, op[1], op[2], hist)
        return f"init-config --preset {op[1]}{' --force' if op[2] else ''}"
    if op[0] == "set":
        t_set(acc, root, op[1], op[2], hist)
        return f"config set {op[1]!r} {op[2]!r}"
    t_reset(acc, root, hist)
    return "config reset --yes"


def _rep_state(rep: str):
    if rep == "absent":
        return None
    if rep.startswith("preset:"):
        from src.cli.config import _generate_config_content  # noqa: PLC0415

        return _generate_config_content(rep.split(":")[1]).encode()
    sp = rep.split(":")[1]
    return handwritten(list(SECTIONS), sp, "block", True, True, True, False).encode()


def run_item(item) -> Acc:
    acc = Acc()
    root = project({})
    k = item["kind"]
    if k == "shapes":
        for sh in item["shapes"]:
            text = handwritten(sh["subset"], sh["spelling"], sh["style"], sh["comments"], sh["extra"], sh["final_nl"], sh["docstart"], sh.get("null"))
            init = text.encode()
            assert _valid_mapping(init), text
            shape_sig = {"style": sh["style"] + ("+empty-section" if sh.get("null") else "")}
            # sequences: init(p) ; init(p) then init(q) ; set then init ; (depth 3: set, init, init)
            seqs = [[("init", p, False)] for p in PRESETS]
            seqs += [[("init", "standard", False), ("init", "strict", False)]]
            seqs += [[("set", "log_level", "DEBUG"), ("init", "standard", False)]]
            seqs += [[("set", "greeting", "Hi"), ("init", "lenient", False)]]
            if item["depth"] >= 3:
                seqs += [[("set", "log_level", "DEBUG"), ("init", "standard", False), ("init", "strict", False)]]
                seqs += [[("init", "standard", False), ("set", "max_retries", "5"), ("init", "standard", False)]]
            for seq in seqs:
                _write(root, init)
                hist = {"initial": init, "cmds": [], "shape_sig": shape_sig, "skip_accept": True}
                for op in seq:
                    hist["cmds"].append(_apply(acc, root, op, hist))
            acc.sample({"initial_file": text, "sequences": [[list(o) for o in s] for s in seqs[:3]]})
    elif k == "bfs":
        init = _rep_state(item["rep"])
        menu = _menu()
        seen = {_h(init)}
        frontier = [(init, [])]
        # level 1 restricted to this item's first command; deeper levels take the whole menu
        for level in range(item["depth"]):
            nxt = []
            for state, cmds in frontier:
                ops = [menu[item["first"]]] if level == 0 else menu
                for op in ops:
                    _write(root, state)
                    hist = {"initial": init, "cmds": list(cmds), "skip_accept": level > 0}
                    name = _apply(acc, root, op, hist)
                    s2 = _read(root)
                    acc.outcome((_h(state), name, _h(s2)))
                    if _h(s2) not in seen:
                        seen.add(_h(s2))
                        nxt.append((s2, cmds + [name]))
            frontier = nxt
        acc.stat("bfs_distinct_states", len(seen))
        acc.sample({"bfs_from": item["rep"], "first_command": list(menu[item["first"]]), "depth": item["depth"], "distinct_file_states": len(seen)})
    elif k == "edited-generated":
        # a generated file in which the user then emptied one section (commented its settings out)
        for p_ in PRESETS:
            _write(root, None)
            obs.cli_inproc(["init-config", "--non-interactive", "--preset", p_, "--output", F], root)
            gen = (_read(root) or b"").decode()
            tops = [ln.split(":")[0] for ln in gen.split("\n") if ln and not ln[0].isspace() and not ln.startswith("#") and ln.rstrip().endswith(":")]
            for sec in tops:
                out, inside = [], False
                for ln in gen.split("\n"):
                    if ln.startswith(sec + ":"):
                        inside = True
                        out.append(ln)
                        continue
                    if inside and ln and not ln[0].isspace() and not ln.startswith("#"):
                        inside = False
                    out.append(("  # " + ln.strip()) if inside and ln.strip() and not ln.strip().startswith("#") else ln)
                init = "\n".join(out).encode()
                if not _valid_mapping(init):
                    continue
                for q_ in PRESETS:
                    _write(root, init)
                    hist = {"initial": init, "cmds": [], "shape_sig": {"style": "generated+emptied-section"}, "skip_accept": True}
                    hist["cmds"].append(_apply(acc, root, ("init", q_, False), hist))
                    hist["cmds"].append(_apply(acc, root, ("init", q_, False), hist))
    elif k == "file-names":
        # every spelling of the configuration file's name: whatever `config set` / `config reset` make
        # of it, a command that FAILS is a rejection and leaves the file byte-for-byte unchanged, and
        # a command that succeeds leaves a file from which `config get` returns the value
        import json as _json  # noqa: PLC0415

        settings = {"app_name": "kept", "log_level": "DEBUG", "max_retries": 5, "timeout": 12.5, "greeting": "Hello"}
        for fname in ("cfg.yaml", "cfg.yml", "cfg.json", "cfg.YAML", "cfg.Yml", "cfg.Json", "cfg.JSON", "settings", "cfg.toml", "cfg.yaml.bak"):
            as_json = fname.lower().endswith(".json")
            initial = (_json.dumps(settings, indent=2) + "\n" if as_json else "".join(f"{k_}: {v_}\n" for k_, v_ in settings.items())).encode()
            for cmd in (["config", "set", "max_retries", "7"], ["config", "set", "max_retries", "-4"], ["config", "set", "log_level", "bogus"], ["config", "set", "greeting", "Hi"], ["config", "reset", "--yes"]):
                (root / fname).write_bytes(initial)
                r = obs.cli_inproc(["--config", fname, *cmd], root)
                after = (root / fname).read_bytes() if (root / fname).exists() else None
                acc.case()
                acc.edge()
                acc.valid()
                case = {"file_name": fname, "initial": initial.decode(), "commands": [" ".join(cmd)]}
                acc.outcome((fname, cmd[1], cmd[-1], r["exit_code"], after == initial))
                if r["exit_code"] != 0:
                    acc.nt(("file-names", fname, tuple(cmd)))
                    if after != initial:
                        acc.fail({"inv": "failed-command-changed-file", "command": cmd[1], "name_class": "lower-case" if fname == fname.lower() else "mixed-case"}, case, "file unchanged", {"exit": r["exit_code"], "bytes_after": None if after is None else len(after), "stderr": r["stderr"][-160:]})
                elif cmd[1] == "set":
                    acc.nt(("file-names", fname, tuple(cmd)))
                    g = obs.cli_inproc(["--config", fname, "config", "get", cmd[2]], root)
                    got = g["stdout"][:-1] if g["stdout"].endswith("\n") else g["stdout"]
                    if g["exit_code"] != 0 or got != cmd[3]:
                        acc.fail({"inv": "get-returns-accepted", "name_class": "lower-case" if fname == fname.lower() else "mixed-case"}, case, cmd[3], {"exit": g["exit_code"], "stdout": g["stdout"][:100]})
                    # the other settings of the file are still in effect
                    for k_, v_ in settings.items():
                        if k_ == cmd[2]:
                            continue
                        g = obs.cli_inproc(["--config", fname, "config", "get", k_], root)
                        if g["exit_code"] != 0 or g["stdout"].strip() != str(v_):
                            acc.fail({"inv": "set-lost-other-setting", "key": k_}, case, str(v_), {"exit": g["exit_code"], "stdout": g["stdout"][:100]})
                (root / fname).unlink(missing_ok=True)
        acc.sample({"file_names": ["cfg.yaml", "cfg.yml", "cfg.json", "cfg.YAML", "cfg.Yml", "cfg.Json", "cfg.JSON", "settings", "cfg.toml", "cfg.yaml.bak"], "commands": ["set valid", "set invalid", "reset"]})
    elif k == "banner-layouts":
        # hand-kept sections above AND below the generated GLOBAL SETTINGS banner; below it one
        # section may be present but empty
        _write(root, None)
        obs.cli_inproc(["init-config", "--non-interactive", "--preset", "standard", "--output", F], root)
        gen = (_read(root) or b"").decode().split("\n")
        at = next((i for i, ln in enumerate(gen) if "GLOBAL SETTINGS" in ln), None)
        if at is None:
            acc.stat("no_global_settings_banner_in_generated_file")
        else:
            start = at - 1 if at > 0 and gen[at - 1].startswith("# ==") else at
            tail = [ln for ln in gen[start:] if ln.strip()]
            above = _emit_section("magic-numbers", SECTIONS["magic-numbers"], "block")
            for below_null in (None, "nesting", "dry"):
                for order in (("dry", "nesting"), ("nesting", "dry")):
                    below = []
                    for nm in order:
                        below += ([f"{nm}:"] + [f"  # {k_}: {json.dumps(v)}" for k_, v in SECTIONS[nm].items()]) if nm == below_null else _emit_section(nm, SECTIONS[nm], "block")
                    init = ("\n".join(above + [""] + tail + ["", "# local overrides"] + below) + "\n").encode()
                    if not _valid_mapping(init):
                        acc.stat("banner_layout_not_valid_yaml")
                        continue
                    for q_ in PRESETS:
                        _write(root, init)
                        hist = {"initial": init, "cmds": [], "shape_sig": {"style": "sections-around-generated-banner" + ("+empty-section" if below_null else "")}, "skip_accept": True}
                        hist["cmds"].append(_apply(acc, root, ("init", q_, False), hist))
                        hist["cmds"].append(_apply(acc, root, ("init", q_, False), hist))
    elif k == "empty-configs":
        # an existing configuration that is valid YAML but holds no setting yet
        for text in EMPTY_SHAPES:
            for p_ in PRESETS:
                init = text.encode()
                _write(root, init)
                argv = ["init-config", "--non-interactive", "--preset", p_, "--output", F]
                r = obs.cli_inproc(argv, root)
                after = _read(root)
                acc.case()
                acc.edge()
                acc.valid()
                acc.nt(("empty", text, p_))
                case = _case(init, [" ".join(argv)])
                try:
                    ok = after is None or isinstance(yaml.safe_load(after.decode("utf-8")), (dict, type(None)))
                except Exception:  # noqa: BLE001
                    ok = False
                if not ok:
                    acc.fail({"inv": "merge-result-valid-yaml", "style": "empty-document"}, case, "valid YAML (or the file left untouched)", (after or b"")[:200].decode("utf-8", "replace"), f"exit={r['exit_code']}")
                r2 = obs.cli_inproc(argv, root)
                again = _read(root)
                acc.edge()
                if again != after:
                    acc.fail({"inv": "init-config-idempotent", "style": "empty-document"}, case, "second run changes nothing", {"first": len(after or b""), "second": len(again or b"")}, f"exit={r2['exit_code']}")
    elif k == "default-location":
        # default file name through a fresh process: init-config writes ./.thailint.yaml, twice
        r1 = obs.cli_subprocess(["init-config", "--non-interactive"], root)
        a = (root / ".thailint.yaml").read_bytes() if (root / ".thailint.yaml").exists() else None
        r2 = obs.cli_subprocess(["init-config", "--non-interactive", "--preset", "strict"], root)
        b = (root / ".thailint.yaml").read_bytes() if (root / ".thailint.yaml").exists() else None
        acc.case(2)
        acc.edge(2)
        acc.valid(2)
        acc.nt("default-location")
        acc.nt("default-location-2")
        if r1["exit_code"] != 0 or a is None or not _valid_mapping(a):
            acc.fail({"inv": "default-location-generate"}, {"commands": ["init-config --non-interactive"]}, "creates a valid .thailint.yaml", {"exit": r1["exit_code"]})
        if a != b:
            acc.fail({"inv": "default-location-idempotent"}, {"commands": ["init-config", "init-config --preset strict"]}, "unchanged", {"exit": r2["exit_code"]})
    remove(root)
    return acc


def replay_case(case) -> list[dict]:
    if case.get("file_name"):
        a = run_item({"kind": "file-names"})
        out = [f for f in a.failures if f["case"] == case]
        for f in out:
            print(f"$ thailint --config {case['file_name']} {case['commands'][0]}\n  expected: {f['expected']}\n  observed: {f['observed']}")
        return out
    acc = Acc()
    root = project({})
    init = None if case.get("initial") is None else case["initial"].encode()
    _write(root, init)
    print("--- initial file ---\n" + (case.get("initial") or "<absent>"))
    hist = {"initial": init, "cmds": [], "skip_accept": False}
    import shlex  # noqa: PLC0415

    for cmd in case["commands"]:
        parts = shlex.split(cmd) if "'" not in cmd and '"' not in cmd else None
        print("$ thailint", cmd)
        if cmd.startswith("init-config"):
            pr = cmd.split("--preset ")[1].split()[0]
            t_init(acc, root, pr, "--force" in cmd, hist)
        elif "config set" in cmd:
            import ast  # noqa: PLC0415

            rest = cmd.split("config set ", 1)[1]
            key_s, val_s = rest.split(" ", 1)
            t_set(acc, root, ast.literal_eval(key_s), ast.literal_eval(val_s), hist)
        elif "config reset" in cmd:
            t_reset(acc, root, hist)
        hist["cmds"].append(cmd)
        del parts
    print("--- final file ---\n" + ((_read(root) or b"<absent>").decode("utf-8", "replace"))[:3000])
    remove(root)
    return acc.failures
