"""C06 — exit code and text/JSON/SARIF outputs always agree with the violations found.

E-input: every linter command x every --format x inputs producing zero / one / many violations
(hostile file names, identifiers and messages) x every class of usage error.  For one frozen
project the command is run once per format; the three renderings must describe the same multiset
and each must be well-formed; the exit code must be 0/1/2 exactly as stated.
"""

from __future__ import annotations

import json
import os

from mc.catalog import load
from mc.core import obs
from mc.core.enum import chunks
from mc.core.isolate import project, remove, yaml_dump
from mc.core.runner import Acc

PROPERTY = "C06"
LEVEL = "model_checking"
RULE = (
    "case = (command, project, format triple) or (command, usage-error class); the complete product "
    "of 20 commands x project menu (clean, single trigger, all catalog triggers, hostile names) and "
    "of 20 commands x 11 usage-error classes is executed; non-trivial = at least one violation is "
    "reported (so the renderings have content to agree on) or a usage error is injected; distinct "
    "by (command, project, error class)"
)
ASSUMPTIONS = [
    "SARIF well-formedness is judged against a hand-written structural schema of the SARIF 2.1.0 fragment thai-lint emits (the official OASIS schema is not available offline)",
    "JSON column c (0-based) corresponds to SARIF startColumn c+1; a violation without a line (line 0) must still have startLine >= 1 in SARIF",
    "the text rendering is checked structurally: `Found N violation(s)` with N = JSON total and one `location / [SEVERITY] rule: message` block per violation",
]
BOUND = {
    "quick": "20 commands x 3 formats x 9 projects (in-process) + hostile-name projects through a fresh process; 20 commands x 11 usage-error classes",
    "thorough": "same, plus every pair of hostile names in one run and all commands through a fresh process",
}
MIN_NONTRIVIAL = {"quick": 250, "thorough": 400}

HOSTILE_NAMES = [
    "sp ace.py", "ünï.py", "ไทย.py", "qu'ote.py", 'dq"uote.py', "new\nline.py", "tab\there.py",
    "semi;colon.py", "percent%41.py", "back\\slash.py", "dollar$x.py", "emoji😀.py",
]
SURROGATE = "bad\udcff.py"  # a file name holding an undecodable byte (surrogate-escaped)
PY_HOSTILE_BODY = (
    "class Ünï_Handler_ไทย:\n"
    "    def get_ชื่อ(self):\n"
    "        return self._n\n\n"
    "def fünc_ไทย(a):\n"
    "    if a:\n        if a:\n            if a:\n                if a:\n                    print('é \"q\" ไทย', 3601)\n"
)


TARGETS = {"dotdot": [["other/../pkg/deep.py"], ["other/../pkg"], ["pkg/../pkg/more.ts", "other/../pkg/deep.py"]]}
RAW_NAMES = [b"bad\xff.py", b"tr\xe2\x82unc.py", b"\xf0\x9f\x98.py", b"a\xc3.py"]


def _projects():
    zoo, cfg, index = load.zoo_project()
    out = {}
    out["clean"] = ({"ok.py": '"""ok."""\n', "ok.ts": "export {};\n", "ok.rs": "fn ok() {}\n"}, {})
    out["zoo"] = (zoo, cfg)
    for lang in ("python", "typescript", "rust"):
        fs, c = {}, {}
        for (name, lg), paths in index.items():
            if lg == lang:
                for p in paths:
                    fs[p] = zoo[p]
        out[f"zoo-{lang}"] = (fs, cfg)
    out["hostile-idents"] = ({"mod.py": PY_HOSTILE_BODY}, {"nesting": {"max_nesting_depth": 2}})
    out["syntax-error"] = ({"broken.py": "def f(:\n    pass\n", "broken.ts": "function ( {{{\n", "ok.py": "print(1)\n", "nul.py": "def f(a):\n    return a\x00\n", "hugeint.py": "LIMIT = " + "9" * 5000 + "\n"}, {})
    out["hostile-names"] = ({n: "import os\nprint('x', 3601)\nclass A_Manager:\n    pass\n" for n in HOSTILE_NAMES}, {})
    # a target spelled with an interior `..` segment (see TARGETS)
    out["dotdot"] = ({"pkg/deep.py": PY_HOSTILE_BODY, "pkg/more.ts": "export function f(v: number) {\n  console.log(v);\n  return v * 3601;\n}\n", "other/keep.py": '"""ok."""\n'}, {"nesting": {"max_nesting_depth": 2}})
    out["hostile-dir"] = ({"d ir/sub ü/ไทย dir/m.py": "print('x', 3601)\n"}, {})
    return out


SARIF_SCHEMA = {
    "type": "object",
    "required": ["version", "$schema", "runs"],
    "properties": {
        "version": {"const": "2.1.0"},
        "$schema": {"type": "string"},
        "runs": {
            "type": "array",
            "minItems": 1,
            "items": {
                "type": "object",
                "required": ["tool", "results"],
                "properties": {
                    "tool": {
                        "type": "object",
                        "required": ["driver"],
                        "properties": {
                            "driver": {
                                "type": "object",
                                "required": ["name", "rules"],
                                "properties": {
                                    "name": {"type": "string", "minLength": 1},
                                    "version": {"type": "string"},
                                    "informationUri": {"type": "string"},
                                    "rules": {
                                        "type": "array",
                                        "items": {"type": "object", "required": ["id"], "properties": {"id": {"type": "string", "minLength": 1}}},
                                    },
                                },
                            }
                        },
                    },
                    "results": {
                        "type": "array",
                        "items": {
                            "type": "object",
                            "required": ["ruleId", "message", "locations"],
                            "properties": {
                                "ruleId": {"type": "string", "minLength": 1},
                                "level": {"enum": ["none", "note", "warning", "error"]},
                                "message": {"type": "object", "required": ["text"], "properties": {"text": {"type": "string"}}},
                                "locations": {
                                    "type": "array",
                                    "minItems": 1,
                                    "items": {
                                        "type": "object",
                                        "required": ["physicalLocation"],
                                        "properties": {
                                            "physicalLocation": {
                                                "type": "object",
                                                "required": ["artifactLocation", "region"],
                                                "properties": {
                                                    "artifactLocation": {"type": "object", "required": ["uri"], "properties": {"uri": {"type": "string"}}},
                                                    "region": {
                                                        "type": "object",
                                                        "required": ["startLine"],
                                                        "properties": {"startLine": {"type": "integer", "minimum": 1}, "startColumn": {"type": "integer", "minimum": 1}},
                                                    },
                                                },
                                            }
                                        },
                                    },
                                },
                            },
                        },
                    },
                },
            },
        },
    },
}


def _validate_sarif(doc) -> list[str]:
    """Minimal structural validator (jsonschema is not installed in the repo's interpreter)."""
    errs = []

    def chk(node, sch, path):
        t = sch.get("type")
        if "const" in sch and node != sch["const"]:
            errs.append(f"{path}: expected {sch['const']!r}, got {node!r}")
        if "enum" in sch and node not in sch["enum"]:
            errs.append(f"{path}: {node!r} not in {sch['enum']}")
        if t == "object":
            if not isinstance(node, dict):
                errs.append(f"{path}: not an object")
                return
            for r in sch.get("required", []):
                if r not in node:
                    errs.append(f"{path}: missing {r}")
            for k, s in sch.get("properties", {}).items():
                if k in node:
                    chk(node[k], s, f"{path}.{k}")
        elif t == "array":
            if not isinstance(node, list):
                errs.append(f"{path}: not an array")
                return
            if len(node) < sch.get("minItems", 0):
                errs.append(f"{path}: fewer than {sch['minItems']} items")
            for i, x in enumerate(node):
                chk(x, sch.get("items", {}), f"{path}[{i}]")
        elif t == "string":
            if not isinstance(node, str):
                errs.append(f"{path}: not a string")
            elif len(node) < sch.get("minLength", 0):
                errs.append(f"{path}: empty string")
        elif t == "integer":
            if not isinstance(node, int) or isinstance(node, bool):
                errs.append(f"{path}: not an integer")
            elif "minimum" in sch and node < sch["minimum"]:
                errs.append(f"{path}: {node} < {sch['minimum']}")

    chk(doc, SARIF_SCHEMA, "$")
    return errs


# ----------------------------------------------------------------------------- items


def items(tier: str, seed: int):
    out = []
    pnames = list(_projects())
    for cmd in load.ALL_COMMANDS:
        for block in chunks(pnames, 5):
            out.append({"kind": "formats", "cmd": cmd, "projects": block, "front": "inproc"})
        out.append({"kind": "errors", "cmd": cmd})
    for cmd_block in chunks(load.ALL_COMMANDS, 2 if tier == "quick" else 1):
        out.append({"kind": "formats-sub", "cmds": cmd_block, "projects": ["hostile-names", "hostile-dir", "hostile-idents", "surrogate"] + (["zoo"] if tier == "thorough" else [])})
    return out


def _run3(cmd, root, target, front, extra=()):
    res = {}
    for fmt in ("json", "text", "sarif"):
        argv = [cmd, *extra, "--format", fmt, *target]
        res[fmt] = obs.cli_subprocess(argv, root) if front == "subprocess" else obs.cli_inproc(argv, root)
    return res


def _check_three(acc: Acc, cmd: str, pname: str, res: dict, front: str):
    case = {"cmd": cmd, "project": pname, "front": front}
    base = {"command_class": "any", "project": pname if pname in ("syntax-error", "surrogate") else "generic"}
    codes = {f: res[f]["exit_code"] for f in res}
    for f, r in res.items():
        if r.get("exception"):
            acc.fail({"check": "exception", "format": f, **base}, case, "no exception escapes", r["exception"][:300])
    # --- JSON
    j = res["json"]
    jv = None
    try:
        raw = j["stdout"]
        raw.encode("utf-8")
        doc = json.loads(raw)
        jv = doc["violations"]
        if doc.get("total") != len(jv):
            acc.fail({"check": "json-total", **base}, case, len(jv), doc.get("total"))
    except UnicodeEncodeError as e:
        acc.fail({"check": "json-utf8", **base}, case, "valid UTF-8", str(e)[:200])
    except (ValueError, KeyError, TypeError) as e:
        if codes["json"] in (0, 1):
            acc.fail({"check": "json-parses", **base}, case, "JSON document with violations/total", f"{type(e).__name__}: {str(e)[:120]} | stdout={j['stdout'][:200]!r} stderr={j['stderr'][-200:]!r}")
    n = len(jv) if jv is not None else None
    # --- exit codes
    if len(set(codes.values())) != 1:
        acc.fail({"check": "exit-differs-between-formats", **base}, case, "same exit code for every format", codes)
    if n is not None:
        want = 1 if n else 0
        for f, c in codes.items():
            if c != want:
                acc.fail({"check": "exit-vs-count", "format": f, "got": c, **base}, case, {"violations": n, "exit": want}, {"exit": c, "stderr": res[f]["stderr"][-200:]})
    else:
        # the project exists and the options are valid: the run CAN be performed
        acc.fail({"check": "run-aborted", **base, "exit": codes["json"]}, case, "exit 0/1 with a report", {"codes": codes, "stderr": res["json"]["stderr"][-300:]})
    if jv is None:
        return 0
    # --- SARIF
    s = res["sarif"]
    try:
        s["stdout"].encode("utf-8")
        sd = json.loads(s["stdout"])
        errs = _validate_sarif(sd)
        line_errs = [e for e in errs if "startLine" in e or "startColumn" in e]
        other = [e for e in errs if e not in line_errs]
        if line_errs:
            acc.fail({"check": "sarif-1-based", **base}, case, "startLine/startColumn >= 1", line_errs[:3])
        if other:
            acc.fail({"check": "sarif-structure", **base}, case, "SARIF 2.1.0 fragment", other[:3])
        run = sd["runs"][0]
        declared = {r["id"] for r in run["tool"]["driver"]["rules"]}
        sres = []
        for r in run["results"]:
            if r["ruleId"] not in declared:
                acc.fail({"check": "sarif-rule-declared", **base}, case, "ruleId declared in driver.rules", r["ruleId"])
            loc = r["locations"][0]["physicalLocation"]
            reg = loc["region"]
            sres.append((r["ruleId"], loc["artifactLocation"]["uri"], reg.get("startLine"), reg.get("startColumn"), r["message"]["text"]))
        jres = [(v["rule_id"], v["file_path"], v["line"], v["column"], v["message"]) for v in jv]

        def key_j(t):
            return (t[0], t[1], t[2] if t[2] >= 1 else "nl", t[3] + 1 if t[2] >= 1 else "nc", t[4])

        def key_s(t, lineless):
            return (t[0], t[1], t[2] if not lineless else "nl", t[3] if not lineless else "nc", t[4])

        import collections  # noqa: PLC0415

        cj = collections.Counter(key_j(t) for t in jres)
        lineless_keys = {(t[0], t[1], t[4]) for t in jres if t[2] < 1}
        cs = collections.Counter(key_s(t, (t[0], t[1], t[4]) in lineless_keys) for t in sres)
        if cj != cs:
            only_j = list((cj - cs).elements())[:2]
            only_s = list((cs - cj).elements())[:2]
            acc.fail({"check": "json-vs-sarif", **base}, case, {"json_only": only_j}, {"sarif_only": only_s}, "JSON and SARIF describe different multisets (sanitisation or location mapping)")
    except UnicodeEncodeError as e:
        acc.fail({"check": "sarif-utf8", **base}, case, "valid UTF-8", str(e)[:200])
    except (ValueError, KeyError, TypeError, IndexError) as e:
        acc.fail({"check": "sarif-parses", **base}, case, "SARIF JSON", f"{type(e).__name__}: {str(e)[:120]} | stdout={s['stdout'][:200]!r} stderr={s['stderr'][-300:]!r}")
    # --- text
    t = res["text"]["stdout"]
    if n == 0:
        if "No violations found" not in t:
            acc.fail({"check": "text-zero", **base}, case, "No violations found", t[:200])
    else:
        if f"Found {n} violation(s)" not in t:
            acc.fail({"check": "text-count", **base}, case, f"Found {n} violation(s)", t[:120])
        import collections  # noqa: PLC0415

        want_blocks = collections.Counter()
        for v in jv:
            loc = f"{v['file_path']}:{v['line']}" if v["line"] else v["file_path"]
            if v["column"]:
                loc += f":{v['column']}"
            want_blocks[f"  {loc}\n    [{v['severity']}] {v['rule_id']}: {v['message']}\n"] += 1
        for blk, k in want_blocks.items():
            if t.count(blk) < k:
                acc.fail({"check": "text-vs-json", **base}, case, blk[:300], f"found {t.count(blk)} of {k} in text output: {t[:300]!r}")
                break
    return n


def run_item(item) -> Acc:
    acc = Acc()
    k = item["kind"]
    projs = _projects()
    if k == "formats":
        cmd = item["cmd"]
        for pname in item["projects"]:
            files, cfg = projs[pname]
            root = project({**files, ".thailint.yaml": yaml_dump(cfg)} if cfg else dict(files))
            for target in TARGETS.get(pname, [["."]]):
                res = _run3(cmd, root, target, "inproc")
                acc.case(3)
                acc.edge(3)
                acc.valid()
                n = _check_three(acc, cmd, pname, res, "inproc")
                acc.outcome((cmd, pname, n, res["json"]["exit_code"]))
                if n:
                    acc.nt((cmd, pname, tuple(target)))
            remove(root)
        acc.sample({"command": cmd, "projects": item["projects"], "formats": ["json", "text", "sarif"]})
    elif k == "formats-sub":
        for cmd in item["cmds"]:
            for pname in item["projects"]:
                if pname == "surrogate":
                    root = project({"ok.py": "print('x', 3601)\n"})
                    try:
                        for raw in RAW_NAMES:
                            with open(os.path.join(os.fsencode(str(root)), raw), "w") as fh:
                                fh.write("print('x', 3601)\nclass A_Manager:\n    pass\n")
                    except OSError:
                        remove(root)
                        continue
                else:
                    files, cfg = projs[pname]
                    root = project({**files, ".thailint.yaml": yaml_dump(cfg)} if cfg else dict(files))
                res = _run3(cmd, root, ["."], "subprocess")
                acc.case(3)
                acc.edge(3)
                acc.valid()
                n = _check_three(acc, cmd, pname, res, "subprocess")
                acc.outcome((cmd, pname, n, "sub"))
                if n:
                    acc.nt((cmd, pname, "sub"))
                remove(root)
    elif k == "errors":
        cmd = item["cmd"]
        files, cfg = projs["zoo-python"]
        root = project({**files, "good.yaml": yaml_dump(cfg), "bad.yaml": "nesting: [unclosed\n  x: {", "bad.json": '{"nesting": ', "notadir.txt": "x", "list.yaml": "- nesting\n- srp\n", "scalar.yaml": "just a string\n", "list.json": "[1, 2]"})
        classes = {
            "missing-path": [cmd, "does/not/exist.py"],
            "missing-path-among-good": [cmd, ".", "nope.py"],
            "missing-config": [cmd, "--config", "nope.yaml", "."],
            "malformed-yaml-config": [cmd, "--config", "bad.yaml", "."],
            "malformed-json-config": [cmd, "--config", "bad.json", "."],
            "yaml-config-is-a-list": [cmd, "--config", "list.yaml", "."],
            "yaml-config-is-a-scalar": [cmd, "--config", "scalar.yaml", "."],
            "json-config-is-a-list": [cmd, "--config", "list.json", "."],
            "unknown-option": [cmd, "--no-such-option", "."],
            "bad-format": [cmd, "--format", "xml", "."],
            "project-root-not-a-dir": ["--project-root", "notadir.txt", cmd, "."],
            "project-root-missing": ["--project-root", "nowhere", cmd, "."],
        }
        thresholds = {"nesting": "--max-depth", "srp": "--max-methods", "dry": "--min-lines", "pipeline": "--min-continues"}
        if cmd in thresholds:
            classes["non-integer-threshold"] = [cmd, thresholds[cmd], "abc", "."]
            classes["zero-threshold"] = [cmd, thresholds[cmd], "0", "."]
            classes["negative-threshold"] = [cmd, thresholds[cmd], "-1", "."]
        for cls, argv in classes.items():
            for fmt in ("text", "json"):
                a = list(argv)
                if "--format" not in a:
                    a += ["--format", fmt]
                elif fmt == "json":
                    continue
                r = obs.cli_inproc(a, root)
                acc.case()
                acc.edge()
                acc.valid()
                acc.nt((cmd, cls, fmt))
                acc.outcome((cls, r["exit_code"]))
                if r["exit_code"] != 2:
                    acc.fail({"check": "usage-error-exit", "class": cls, "got": r["exit_code"], "command": cmd if cls.endswith("threshold") else "any"}, {"cmd": cmd, "argv": a, "error_class": cls}, {"exit": 2}, {"exit": r["exit_code"], "stdout": r["stdout"][:200], "stderr": r["stderr"][-300:], "exception": r.get("exception")})
        # auto-discovered malformed config
        for name, content in ((".thailint.yaml", "nesting: [unclosed\n  x: {"), (".thailint.json", '{"nesting": '), (".thailint.yaml", "- a\n- list\n")):
            r2 = project({**files, name: content})
            r = obs.cli_inproc([cmd, "."], r2)
            acc.case()
            acc.edge()
            acc.valid()
            acc.nt((cmd, "auto-malformed", name))
            if r["exit_code"] != 2:
                acc.fail({"check": "usage-error-exit", "class": f"auto-discovered-malformed-{name}", "got": r["exit_code"], "command": "any"}, {"cmd": cmd, "argv": [cmd, "."], "error_class": f"auto:{name}", "content": content}, {"exit": 2}, {"exit": r["exit_code"], "stdout": r["stdout"][:200], "stderr": r["stderr"][-300:]})
            remove(r2)
        remove(root)
    return acc


def replay_case(case) -> list[dict]:
    if "argv" in case:
        a = run_item({"kind": "errors", "cmd": case["cmd"]})
        return [f for f in a.failures if f["case"].get("error_class") == case.get("error_class")]
    if case.get("front") == "subprocess":
        a = run_item({"kind": "formats-sub", "cmds": [case["cmd"]], "projects": [case["project"]]})
    else:
        a = run_item({"kind": "formats", "cmd": case["cmd"], "projects": [case["project"]], "front": "inproc"})
    for f in a.failures:
        print(json.dumps(f["signature"]), "|", str(f["observed"])[:500])
    return a.failures
