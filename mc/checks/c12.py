"""C12 — every violation points at a real location of the construct it describes.

Part A (all linters): every violation of every command on the documented violating examples under
layout variations (k leading blank/comment lines, no trailing newline, CRLF, tab indentation) must
name a file of the run, 1 <= line <= #lines, 0 <= column <= len(line), and the first name or
literal the message quotes must occur on the reported line.
Part B (construct line): generated programs whose construct lines are known by construction, with
layout as the enumerated dimension (lines above, enclosing scope, decorators / attributes above the
header, multi-line headers, multi-line calls and collections).
"""

from __future__ import annotations

import re

from mc.catalog import load
from mc.core import obs
from mc.core.enum import chunks
from mc.core.isolate import project, remove, yaml_dump
from mc.core.runner import Acc

PROPERTY = "C12"
LEVEL = "model_checking"
RULE = (
    "case = (linter, program, layout) -> every reported violation is checked; part A enumerates "
    "all catalog examples x layout values, part B all constructs x layout values x scopes; "
    "non-trivial = at least one violation is reported for the case; distinct by (program, layout)"
)
ASSUMPTIONS = [
    "syntax-error notices are exempt, as the statement says",
    "only the FIRST quoted name/literal of a message is required on the reported line (later quotes name context such as the enclosing class)",
    "construct lines are known by construction of the generated programs (part B)",
]
BOUND = {
    "quick": "part A: every catalog trigger x 7 layouts x its command; part B: 9 constructs x 4 languages where applicable x {0..3 lines above} x {module, function, class, nested} x {plain, decorated, multi-line}",
    "thorough": "part A with all pairs (lines above) x (no trailing newline | CRLF) and CRLF without trailing newline; part B with {0,1,2,3,5,8} lines above",
}
MIN_NONTRIVIAL = {"quick": 250, "thorough": 600}
QUOTE = re.compile(r"'([^']+)'")


def _layouts(text: str, lang: str, pairs: bool = False):
    cm = "#" if lang == "python" else "//"
    out = [("plain", text, 0)]
    for k in (1, 2, 3):
        out.append((f"{k}-blank-above", "\n" * k + text, k))
    out.append(("comments-above", f"{cm} first remark\n{cm} second remark\n" + text, 2))
    out.append(("no-trailing-newline", text.rstrip("\n"), 0))
    out.append(("crlf", text.replace("\n", "\r\n"), 0))
    if pairs:
        for name_a, text_a, k in list(out[1:5]):
            out.append((name_a + "+no-trailing-newline", text_a.rstrip("\n"), k))
            out.append((name_a + "+crlf", text_a.replace("\n", "\r\n"), k))
        out.append(("crlf+no-trailing-newline", text.rstrip("\n").replace("\n", "\r\n"), 0))
    return out


def _generic(acc: Acc, name, lang, layout, files, vs, case):
    for v in vs:
        rid, f, line, col, msg = v
        if "syntax" in rid or msg.lower().startswith("syntax error"):
            continue
        sig = {"linter": name, "lang": lang, "layout": layout if layout in ("crlf", "no-trailing-newline") else "shifted"}
        if f not in files:
            acc.fail({**sig, "mode": "file-not-in-run"}, case, sorted(files), f)
            continue
        src = files[f].replace("\r\n", "\n").split("\n")
        nl = len(src) - (1 if src and src[-1] == "" else 0)
        nl = max(nl, 1)
        if not (1 <= line <= nl):
            acc.fail({**sig, "mode": "line-out-of-range", "rule": rid}, case, f"1..{nl}", line, msg[:120])
            continue
        text = src[line - 1]
        if not (0 <= col <= len(text)):
            acc.fail({**sig, "mode": "column-out-of-range", "rule": rid}, case, f"0..{len(text)}", col, msg[:120])
        if rid.startswith(("unwrap-abuse", "clone-abuse", "blocking-async")) and ": " in msg:
            # these messages end with the source text of the call: it is taken from the source
            quoted = msg.split(": ", 1)[1].strip()
            if quoted and quoted in files[f] and quoted not in text:
                acc.fail({**sig, "mode": "quoted-source-not-on-line", "rule": rid}, {**case, "line": line}, f"{quoted[:60]!r} on line {line}", text[:160], msg[:160])
        m = QUOTE.search(msg)
        if m and re.fullmatch(r"[\w.$]+", m.group(1)) and not name.startswith(("dry", "stringly", "file-placement", "file-header", "lazy")):
            tok = m.group(1)
            # only names TAKEN FROM THE SOURCE are required on the line (the statement says so);
            # placeholders such as 'arrow_function' for an anonymous function occur nowhere in it
            if tok in files[f] and tok not in text:
                acc.fail({**sig, "mode": "quoted-name-not-on-line", "rule": rid}, {**case, "line": line}, f"{tok!r} on line {line}", text[:160], msg[:160])


# ------------------------------------------------------------------ part B generators

SCOPES = {
    "python": {"module": (0, []), "function": (1, ["def scope_fn():"]), "class": (1, ["class ScopeCls:"]), "nested": (2, ["class ScopeCls:", "    def scope_method(self):"])},
    "ts": {"module": (0, [], []), "function": (1, ["function scopeFn() {"], ["}"]), "class-method": (2, ["class ScopeCls {", "  scopeMethod() {"], ["  }", "}"])},
    "rust": {"module": (0, [], []), "mod": (1, ["mod scope_mod {"], ["}"])},
}


def _py(scope, body_lines):
    ind, head = SCOPES["python"][scope]
    pad = "    " * ind
    return head + [pad + ln if ln else ln for ln in body_lines]


def _constructs():
    """yield (linter cmd, lang ext, config, name, lines, {line index -> expectation name}) with '@@' marking the construct line."""
    out = []
    # nesting: header line = line holding def/function/fn
    deep_py = ["    if a:", "        if a:", "            if a:", "                if a:", "                    work()"]
    for variant, head in (("plain", ["@@def target_fn(a):"]), ("decorated", ["@decorate", "@another(1)", "@@def target_fn(a):"]), ("multi-line-header", ["@@def target_fn(", "    a,", "    b=None,", "):"]), ("async", ["@@async def target_fn(a):"])):
        for scope in ("module", "class"):
            out.append(("nesting", ".py", {"nesting": {"max_nesting_depth": 2}}, f"py-{variant}-{scope}", _py(scope, head + deep_py), "target_fn"))
    deep_ts = ["  if (a) {", "    if (a) {", "      if (a) {", "        work();", "      }", "    }", "  }", "}"]
    for variant, head in (("plain", ["@@function targetFn(a) {"]), ("multi-line-header", ["@@function targetFn(", "  a,", "  b,", ") {"]), ("arrow", ["@@const targetFn = (a) => {"]), ("exported", ["@@export function targetFn(a) {"])):
        out.append(("nesting", ".ts", {"nesting": {"max_nesting_depth": 2}}, f"ts-{variant}", head + deep_ts, "targetFn"))
    out.append(("nesting", ".ts", {"nesting": {"max_nesting_depth": 2}}, "ts-wrapped-arrow-on-next-line", ["const targetFn = useCallback(", "@@  async (a) => {", "    if (a) {", "      if (a) {", "        if (a) {", "          work();", "        }", "      }", "    }", "  },", "  [],", ");"], ""))
    out.append(("nesting", ".ts", {"nesting": {"max_nesting_depth": 2}}, "ts-wrapped-function-expression-on-next-line", ["const targetFn = debounce(", "@@  function (a) {", "    if (a) {", "      if (a) {", "        if (a) {", "          work();", "        }", "      }", "    }", "  },", "  250,", ");"], ""))
    deep_rs = ["    if a {", "        if a {", "            if a {", "                work();", "            }", "        }", "    }", "}"]
    for variant, head in (("plain", ["@@fn target_fn(a: bool) {"]), ("attributed", ["#[inline]", "#[allow(dead_code)]", "@@fn target_fn(a: bool) {"]), ("multi-line-header", ["@@fn target_fn(", "    a: bool,", ") {"]), ("pub-async", ["@@pub async fn target_fn(a: bool) {"])):
        out.append(("nesting", ".rs", {"nesting": {"max_nesting_depth": 2}}, f"rs-{variant}", head + deep_rs, "target_fn"))
    # srp: class header line
    methods = [f"    def m{i}(self):\n        return {i}" for i in range(4)]
    body = [ln for m in methods for ln in m.split("\n")]
    for variant, head in (("plain", ["@@class TargetLedger:"]), ("decorated", ["@final", "@@class TargetLedger:"]), ("bases-multi-line", ["@@class TargetLedger(", "    BaseOne,", "    BaseTwo,", "):"])):
        out.append(("srp", ".py", {"srp": {"max_methods": 2, "check_keywords": False}}, f"py-{variant}", head + body, "TargetLedger"))
    tsb = [ln for i in range(4) for ln in (f"  m{i}() {{", f"    return {i};", "  }")] + ["}"]
    for variant, head in (("plain", ["@@class TargetLedger {"]), ("exported", ["@@export class TargetLedger {"]), ("decorated", ["@Injectable()", "@@class TargetLedger {"])):
        out.append(("srp", ".ts", {"srp": {"max_methods": 2, "check_keywords": False}}, f"ts-{variant}", head + tsb, "TargetLedger"))
    rsb = ["    id: u32,", "}", "", "impl TargetLedger {"] + [f"    pub fn m{i}(&self) -> u32 {{ {i} }}" for i in range(4)] + ["}"]
    for variant, head in (("plain", ["@@struct TargetLedger {"]), ("derive", ["#[derive(Debug, Clone)]", "@@struct TargetLedger {"]), ("pub", ["@@pub struct TargetLedger {"])):
        out.append(("srp", ".rs", {"srp": {"max_methods": 2, "check_keywords": False}}, f"rs-{variant}", head + rsb, "TargetLedger"))
    # stateless-class: class header line
    for variant, head in (("plain", ["@@class TargetTools:"]), ("bases", ["@@class TargetTools(object):"])):
        out.append(("stateless-class", ".py", {}, f"py-{variant}", head + ["    def first(self, a):", "        return a + 1", "", "    def second(self, b):", "        return b * 2"], "TargetTools"))
    # magic numbers: the literal's line
    for variant, lines in (
        ("call-multi-line", ["def target_fn():", "    return compute(", "        first,", "@@        3601,", "    )"]),
        ("list-multi-line", ["def target_fn():", "    return [", "        first,", "@@        3601,", "    ]"]),
        ("after-docstring", ["def target_fn():", '    """Doc', "", '    more."""', "@@    return 3601"]),
    ):
        out.append(("magic-numbers", ".py", {}, f"py-{variant}", lines, "3601"))
    out.append(("magic-numbers", ".ts", {}, "ts-call-multi-line", ["function targetFn() {", "  return compute(", "    first,", "@@    3601,", "  );", "}"], "3601"))
    out.append(("magic-numbers", ".rs", {}, "rs-call-multi-line", ["fn target_fn() {", "    compute(", "        first,", "@@        3601,", "    );", "}"], "3601"))
    # print / console: the call line
    out.append(("improper-logging", ".py", {}, "py-print-multi-line", ["def target_fn(value):", "@@    print(", "        value,", "    )", "    return value"], "print"))
    out.append(("improper-logging", ".ts", {}, "ts-console-multi-line", ["function targetFn(value) {", "@@  console.log(", "    value,", "  );", "}"], "console"))
    # rust calls
    out.append(("unwrap-abuse", ".rs", {}, "rs-unwrap", ["fn target_fn(opt: Option<u32>) -> u32 {", "    let prepared = prepare();", "@@    let v = opt.unwrap();", "    v + prepared", "}"], "unwrap"))
    out.append(("clone-abuse", ".rs", {}, "rs-clone-loop", ["fn target_fn(items: Vec<String>, y: String) {", "    for it in items.iter() {", "@@        consume(y.clone());", "    }", "    touch(&y);", "}"], "clone"))
    out.append(("clone-abuse", ".rs", {}, "rs-clone-wrapped-let", ["fn target_fn(source: String) -> usize {", "    let copied: String =", "@@        source.clone();", "    copied.len()", "}"], "clone"))
    out.append(("unwrap-abuse", ".rs", {}, "rs-unwrap-wrapped", ["fn target_fn(opt: Option<u32>) -> u32 {", "@?    let v = opt", "@@        .unwrap();", "    v", "}"], "unwrap"))
    out.append(("unwrap-abuse", ".rs", {}, "rs-unwrap-far-right-on-continuation", ["fn target_fn(map: Table) -> usize {", "@?    let n = map", "@@        .get(\"a-rather-long-key-name\").map(|v| v.len()).unwrap();", "    n", "}"], "unwrap"))
    out.append(("magic-numbers", ".py", {}, "py-binop-continuation", ["def target_fn(first):", "    return (first", "@@            + 3601)"], "3601"))
    out.append(("magic-numbers", ".py", {}, "py-kwarg-multi-line", ["def target_fn():", "    return compute(", "        first,", "@@        limit=3601,", "    )"], "3601"))
    out.append(("magic-numbers", ".py", {}, "py-dict-multi-line", ["def target_fn():", "    return {", "        'a': first,", "@@        'b': 3601,", "    }"], "3601"))
    out.append(("blocking-async", ".rs", {}, "rs-blocking", ["async fn target_fn(path: &str) -> Res {", "    let prepared = prepare();", "@@    let s = std::fs::read_to_string(path)?;", "    Ok(s)", "}"], "read_to_string"))
    return out


def items(tier: str, seed: int):
    out = []
    trig = [(n, lg) for (n, lg, _f, _c) in load.all_triggers()]
    for block in chunks(trig, 3):
        out.append({"kind": "generic", "triggers": block, "pairs": tier == "thorough"})
    cons = _constructs()
    for block in chunks(list(range(len(cons))), 6):
        out.append({"kind": "construct", "idx": block, "deep": tier == "thorough"})
    out.append({"kind": "dry"})
    return out


def _run(cmd, files, cfg):
    fs = dict(files)
    if cfg:
        fs[".thailint.yaml"] = yaml_dump(cfg)
    root = project(fs)
    r = obs.cli_json([cmd, "."], root)
    prefix = load.COMMAND_PREFIX[cmd][0]
    vs = None if r["violations"] is None else [t for t in obs.norm(r["violations"], root, root) if t[0].startswith(prefix)]
    remove(root)
    return vs, r


def run_item(item) -> Acc:
    acc = Acc()
    k = item["kind"]
    if k == "generic":
        for name, lang in item["triggers"]:
            cmd = load.primary_command(name)
            if not cmd:
                continue
            fs0 = load.trigger_files(name, lang)
            cfg = load.trigger_config(name, lang)
            target = sorted(fs0)[0]
            for lname, text, _shift in _layouts(fs0[target], lang, item.get("pairs", False)):
                if name in ("file-header", "lazy-ignores") and "above" in lname:
                    continue
                files = dict(fs0)
                files[target] = text
                vs, r = _run(cmd, files, cfg)
                acc.case()
                acc.valid()
                case = {"linter": name, "lang": lang, "layout": lname, "files": files, "config": cfg, "cmd": cmd}
                if vs is None:
                    acc.fail({"linter": name, "lang": lang, "mode": f"exit{r['exit_code']}", "layout": lname}, case, "exit 0/1", r["stderr"][-300:])
                    continue
                if vs:
                    acc.nt((name, lang, lname))
                acc.edge(len(vs))
                _generic(acc, name, lang, lname, files, vs, case)
        acc.sample({"triggers": item["triggers"], "layouts": [x[0] for x in _layouts("x\n", "python")]})
    elif k == "construct":
        cons = _constructs()
        for i in item["idx"]:
            cmd, ext, cfg, cname, lines, token = cons[i]
            for above in ((0, 1, 3) if not item.get("deep") else (0, 1, 2, 3, 5, 8)):
                src, want, also = [], None, set()
                src += [""] * above
                for ln in lines:
                    if ln.startswith("@?"):  # the call expression starts here: an acceptable line too
                        also.add(len(src) + 1)
                        ln = ln[2:]
                    if ln.startswith("@@"):
                        want = len(src) + 1
                        ln = ln[2:]
                    elif "@@" in ln:
                        want = len(src) + 1
                        ln = ln.replace("@@", "")
                    src.append(ln)
                text = "\n".join(src) + "\n"
                files = {f"target{ext}": text}
                vs, r = _run(cmd, files, cfg)
                acc.case()
                acc.valid()
                case = {"cmd": cmd, "construct": cname, "files": files, "config": cfg, "expected_line": want, "lines_above": above}
                sig = {"linter": cmd, "construct": cname}
                if vs is None:
                    acc.fail({**sig, "mode": f"exit{r['exit_code']}"}, case, "exit 0/1", r["stderr"][-300:])
                    continue
                mine = [t for t in vs if token in t[4] or cmd not in ("nesting", "srp", "stateless-class")]
                if mine:
                    acc.nt((cname, above))
                acc.edge()
                acc.outcome((cname, above, [t[2] for t in mine]))
                if not mine:
                    acc.fail({**sig, "mode": "construct-not-reported"}, case, f"a violation at line {want}", [list(t[:3]) for t in vs][:3], "the generated construct is not reported at all (cannot judge its line)")
                elif not any(t[2] == want or t[2] in also for t in mine):
                    acc.fail({**sig, "mode": "line-is-not-the-construct-line"}, case, want, sorted({t[2] for t in mine}), f"{src[want - 1].strip()!r} is the construct's line")
                _generic(acc, cmd, ext, "shifted" if above else "plain", files, vs, case)
        acc.sample({"constructs": [cons[i][3] for i in item["idx"]], "lines_above": [0, 1, 3]})
    elif k == "dry":
        block = ["    alpha = fetch_alpha(source)", "    beta = alpha.transform(stage_one)", "    gamma = combine(alpha, beta)", "    delta.append(gamma)"]
        for lang, ext, opener, closer in (("python", ".py", "def {n}(source, delta):", []), ("ts", ".ts", "function {n}(source, delta) {{", ["}"])):
            blk = block if lang == "python" else ["  const alpha = fetchAlpha(source);", "  const beta = alpha.transform(stageOne);", "  const gamma = combine(alpha, beta);", "  delta.push(gamma);"]
            for above in (0, 2, "doc", "formfeed"):
                for gap in (0, 1):
                    if above == "formfeed":
                        if lang != "python":
                            continue
                        doc, above_n = ["\x0c", "# second page"], 2
                    elif above == "doc":
                        doc = ['"""Module text."""', ""] if lang == "python" else ["/**", " * Describes the handler.", " * @param source input", " */"]
                        above_n = len(doc)
                    else:
                        doc, above_n = [""] * above, above
                    a = doc + [opener.format(n="first_handler")] + ["    unique_one = make_one(source)" if lang == "python" else "  const uniqueOne = makeOne(source);"] + ([""] * gap) + blk + closer + [""]
                    b = [opener.format(n="second_handler")] + blk + closer + [""]
                    first_a = above_n + 2 + gap + 1
                    files = {f"a{ext}": "\n".join(a) + "\n", f"b{ext}": "\n".join(b) + "\n"}
                    vs, r = _run("dry", files, {"dry": {"enabled": True, "min_duplicate_lines": 4}})
                    acc.case()
                    acc.valid()
                    case = {"cmd": "dry", "construct": f"dup-{lang}", "files": files, "config": {"dry": {"enabled": True, "min_duplicate_lines": 4}}, "expected_line": first_a}
                    if vs:
                        acc.nt(("dry", lang, above, gap))
                    acc.edge()
                    la = sorted(t[2] for t in (vs or []) if t[1] == f"a{ext}")
                    lb = sorted(t[2] for t in (vs or []) if t[1] == f"b{ext}")
                    if la != [first_a] or lb != [2]:
                        acc.fail({"linter": "dry", "construct": f"dup-{lang}", "mode": "line-is-not-first-line-of-block"}, case, {"a": [first_a], "b": [2]}, {"a": la, "b": lb})
        # duplicate constants: the quoted name must be on the reported line (multi-declarator statements)
        for lang, ext, fa, fb in (
            ("ts", ".ts", "const API_TIMEOUT_MS = 3000,\n  MAX_RETRY_COUNT = 5;\n\nexport const LATER_LIMIT = 9,\n  POOL_SIZE_LIMIT = 64;\n", "const MAX_RETRY_COUNT = 5;\nconst POOL_SIZE_LIMIT = 64;\n"),
            ("python", ".py", "API_TIMEOUT_MS = 3000\nMAX_RETRY_COUNT = 5\n\nLATER_LIMIT, POOL_SIZE_LIMIT = 9, 64\n", "MAX_RETRY_COUNT = 5\nPOOL_SIZE_LIMIT = 64\n"),
        ):
            files = {f"a{ext}": fa, f"b{ext}": fb}
            cfgc = {"dry": {"enabled": True, "detect_duplicate_constants": True}}
            vs, r = _run("dry", files, cfgc)
            acc.case()
            acc.valid()
            if vs:
                acc.nt(("dry-constants", lang))
            for t in vs or []:
                m = re.search(r"constant '([A-Za-z_][A-Za-z0-9_]*)'", t[4])
                if not m:
                    continue
                acc.edge()
                src_line = files[t[1]].split("\n")[t[2] - 1] if 0 < t[2] <= files[t[1]].count("\n") + 1 else ""
                if m.group(1) not in src_line:
                    acc.fail({"linter": "dry", "construct": f"duplicate-constant-{lang}", "mode": "quoted-name-not-on-line"}, {"cmd": "dry", "construct": f"dup-constant-{lang}", "files": files, "config": cfgc, "expected_line": None, "line": t[2]}, f"{m.group(1)!r} on line {t[2]} of {t[1]}", src_line)
    return acc


def replay_case(case) -> list[dict]:
    fs = dict(case["files"])
    if case.get("config"):
        fs[".thailint.yaml"] = yaml_dump(case["config"])
    root = project(fs)
    r = obs.cli_subprocess([case["cmd"], "--format", "json", "."], root)
    for n, c in case["files"].items():
        print(f"--- {n} ---")
        for i, ln in enumerate(c.split("\n"), 1):
            print(f"{i:3d} | {ln!r}")
    print(f"$ thailint {case['cmd']} --format json .\nexit={r['exit_code']}\n{r['stdout'][:1500]}\nexpected construct line: {case.get('expected_line')}")
    vs = obs.norm(obs.parse_json_out(r["stdout"]) or [], root, root)
    remove(root)
    a = Acc()
    if "expected_line" in case and case["expected_line"]:
        if not any(t[2] == case["expected_line"] for t in vs):
            a.fail({"replayed": True}, case, case["expected_line"], sorted({t[2] for t in vs}))
    else:
        _generic(a, case.get("linter", case["cmd"]), case.get("lang", ""), case.get("layout", "plain"), case["files"], [t for t in vs], case)
    return a.failures
