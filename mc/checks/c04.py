"""C04 — suppression directives silence exactly what they name, in every linter.

E-input, full matrix: linter x language x directive form x rule-name spelling x placement, over the
documented violating examples (plus a probe function that carries violations of other linters).
Edge oracle between the base run and the run with the directive inserted:
    after = shift(before - S)      S = violations of the linter in the directive's documented scope
                                       when the spelling names the linter (else the empty set)
and the findings of another linter's command on the same file are unchanged up to the line shift.
"""

from __future__ import annotations

from mc.catalog import load
from mc.core import obs
from mc.core.isolate import project, remove, yaml_dump
from mc.core.runner import Acc

PROPERTY = "C04"
LEVEL = "model_checking"
RULE = (
    "case = (linter, language, directive form, rule-name spelling, placement) applied to the "
    "linter's documented violating example; complete product; non-trivial = the base run reports "
    "at least one violation of the linter and the directive is expected to remove at least one of "
    "them (or, for negative placements, there is something it could wrongly remove)"
)
ASSUMPTIONS = [
    "comment style follows the language: `#` in Python, `//` in TypeScript/JavaScript/Rust",
    "lazy-ignores is exempt (its subject is the suppression comments); file-header is exercised with file-level and pattern forms only (line-level directives would edit the header it inspects)",
    "scope model: same line; next line; lines between ignore-start and ignore-end; whole file if ignore-file is within the first 10 lines; whole file if a repository/linter-level pattern matches the path",
]
BOUND = {
    "quick": "19 linters x their languages x 8 forms x 6 spellings x up to 4 placements (finite matrix, taken in full)",
    "thorough": "same matrix plus two directives per file (ordered pairs of forms on two violations)",
}
MIN_NONTRIVIAL = {"quick": 1500, "thorough": 1800}

PROBE = {
    "python": "\n\ndef extra_probe_fn():\n    print(98765)\n",
    "typescript": "\n\nfunction extraProbeFn() {\n  console.log(98765);\n}\n",
    "javascript": "\n\nfunction extraProbeFn() {\n  console.log(98765);\n}\n",
    "rust": "\n\nfn extra_probe_fn() -> i32 {\n    98765\n}\n",
}
CM = {"python": "#", "typescript": "//", "javascript": "//", "rust": "//"}
FORMS = ["same-line", "next-line", "block", "file-top", "file-late", "thailintignore", "config-ignore", "config-ignore-explicit", "linter-ignore"]
SPELLINGS = ["full", "prefix", "wildcard", "alias", "alias-upper", "upper", "bare"]


def _spelled(spelling, rule_id, prefix, aliases):
    if spelling == "full":
        return rule_id
    if spelling == "prefix":
        return prefix
    if spelling == "wildcard":
        return prefix + ".*"
    if spelling == "alias":
        return aliases[0] if aliases else None
    if spelling == "alias-upper":
        return aliases[0].title() if aliases else None
    if spelling == "upper":
        return rule_id.upper()
    return ""  # bare


def _insert(lines, form, n, name, cm):
    """-> (new lines, shift(line)->new line, in_scope(line) on ORIGINAL numbering)"""
    L = list(lines)
    indent = L[n - 1][: len(L[n - 1]) - len(L[n - 1].lstrip())] if 1 <= n <= len(L) else ""
    br = f"[{name}]" if name else ""
    if form == "same-line":
        L[n - 1] = L[n - 1] + f"  {cm} thailint: ignore{br}"
        return L, (lambda x: x), (lambda x: x == n)
    if form == "next-line":
        L.insert(n - 1, f"{indent}{cm} thailint: ignore-next-line{br}")
        return L, (lambda x: x + 1 if x >= n else x), (lambda x: x == n)
    if form == "block":
        L.insert(n - 1, f"{indent}{cm} thailint: ignore-start{(' ' + name) if name else ''}")
        L.insert(n + 1, f"{indent}{cm} thailint: ignore-end")
        return L, (lambda x: x + 1 if x == n else (x + 2 if x > n else x)), (lambda x: x == n)
    if form == "file-top":
        L.insert(0, f"{cm} thailint: ignore-file{br}")
        return L, (lambda x: x + 1), (lambda x: True)
    if form == "file-late":
        pad = [f"{cm} filler comment {i}" for i in range(10)] + [f"{cm} thailint: ignore-file{br}"]
        return pad + L, (lambda x: x + 11), (lambda x: False)
    raise ValueError(form)


def _setups():
    out = []
    for name, d in load.linters().items():
        cmd = load.primary_command(name)
        if not cmd or name == "lazy-ignores":
            continue
        for lang in d.get("languages") or {}:
            if lang not in PROBE:
                continue
            fs = load.trigger_files(name, lang)
            if fs:
                out.append((name, lang))
    return out


def items(tier: str, seed: int):
    out = [{"linter": n, "lang": lg, "pairs": tier == "thorough"} for n, lg in _setups()]
    out += [{"linter": "dry", "lang": lg, "dry_lines": True} for n, lg in _setups() if n == "dry"]
    return out


def _dry_lines(item) -> Acc:
    """Line-scoped directives on a duplicate-code violation (reported in finalize, after all files
    were read): same line / next line at the reported line, and a block wrapped around the whole
    duplicated span; every way of naming the target (., sub-directory, file list, absolute)."""
    import re  # noqa: PLC0415

    acc = Acc()
    lang = item["lang"]
    files = dict(load.trigger_files("dry", lang))
    cfg = load.trigger_config("dry", lang)
    cm = CM[lang]
    target = sorted(files)[0]
    tops = sorted({p.split("/")[0] for p in files})

    def run(fs, how):
        root = project({**fs, ".thailint.yaml": yaml_dump(cfg)})
        args = {"dot": ["."], "dirs": tops, "files": sorted(fs), "absolute": [str(root)]}[how]
        r = obs.cli_json(["dry", *args], root)
        vs = None if r["violations"] is None else sorted((t[0], t[1], t[2]) for t in obs.norm(r["violations"], root, root) if t[0].startswith("dry"))
        msgs = {} if r["violations"] is None else {(t[1], t[2]): t[4] for t in obs.norm(r["violations"], root, root)}
        remove(root)
        return vs, msgs

    for how in ("dot", "dirs", "files", "absolute"):
        base, msgs = run(files, how)
        acc.case()
        mine = [t for t in (base or []) if t[1] == target]
        if not mine:
            acc.fail({"linter": "dry", "lang": lang, "mode": "baseline-empty", "target": how}, {"linter": "dry", "lang": lang, "dry_lines": True, "how": how}, "dry violations in " + target, base)
            continue
        n = mine[0][2]
        m = re.search(r"\((\d+) lines", msgs[(target, n)])
        span = int(m.group(1)) if m else 1
        lines = files[target].split("\n")
        for form in ("same-line", "next-line", "block-span"):
            for spelling, name, names_me in (("full", "dry.duplicate-code", True), ("prefix", "dry", True), ("wildcard", "dry.*", True), ("upper", "DRY", True), ("bare", "", True), ("names-other-linter", "nesting", False)):
                L = list(lines)
                br = f"[{name}]" if name else ""
                if form == "same-line":
                    L[n - 1] += f"  {cm} thailint: ignore{br}"
                    shift = lambda x: x  # noqa: E731
                elif form == "next-line":
                    L.insert(n - 1, f"{cm} thailint: ignore-next-line{br}")
                    shift = lambda x: x + 1 if x >= n else x  # noqa: E731
                else:
                    L.insert(n - 1, f"{cm} thailint: ignore-start{(' ' + name) if name else ''}")
                    L.insert(n + span, f"{cm} thailint: ignore-end")
                    shift = lambda x: x + 1 if n <= x < n + span else (x + 2 if x >= n + span else x)  # noqa: E731
                nf = {**files, target: "\n".join(L)}
                got, _m = run(nf, how)
                acc.case()
                acc.edge()
                acc.valid()
                acc.nt(("dry-lines", lang, how, form, spelling))
                in_scope = (lambda x: x == n) if form != "block-span" else (lambda x: n <= x < n + span)
                want = sorted((t[0], t[1], shift(t[2]) if t[1] == target else t[2]) for t in base if not (names_me and t[1] == target and in_scope(t[2])))
                if got != want:
                    missing = [t for t in want if t not in (got or [])]
                    extra = [t for t in (got or []) if t not in want]
                    mode = "not-suppressed" if extra and not missing else ("over-suppressed" if missing and not extra else "differs")
                    acc.fail({"linter": "dry", "lang": lang, "form": form, "mode": mode, "scope": "line-level-on-finalize-violation", "target": "any" if True else how, "names_it": names_me},
                             {"linter": "dry", "lang": lang, "dry_lines": True, "how": how, "form": form, "spelling": spelling, "files": nf, "config": cfg, "cmd": "dry"}, want, got)
    return acc


def _other_cmd(name):
    return "improper-logging" if name == "magic-numbers" else "magic-numbers"


def _run(cmd, files, cfg, extra_files=None):
    fs = dict(files)
    explicit = bool(extra_files) and extra_files.get("@@explicit-config")
    if extra_files:
        fs.update({k: v for k, v in extra_files.items() if not k.startswith("@@")})
    if cfg and explicit:
        fs["lintcfg/chosen.yaml"] = yaml_dump(cfg)  # handed over with --config, nothing in the root
    elif cfg:
        fs[".thailint.yaml"] = yaml_dump(cfg)
    root = project(fs)
    r = obs.cli_json([cmd, "--config", "lintcfg/chosen.yaml", "."] if cfg and explicit else [cmd, "."], root)
    vs = None if r["violations"] is None else obs.norm(r["violations"], root, root)
    remove(root)
    return vs, r


def run_item(item) -> Acc:
    if item.get("dry_lines"):
        return _dry_lines(item)
    acc = Acc()
    name, lang = item["linter"], item["lang"]
    d = load.linters()[name]
    cmd = load.primary_command(name)
    prefix = load.COMMAND_PREFIX[cmd][0]
    aliases = [a.split(".")[0] for a in (d.get("deprecated_aliases") or [])]
    files = dict(load.trigger_files(name, lang))
    cfg = load.trigger_config(name, lang)
    section = (d.get("config_sections") or [name])[0]
    cm = CM[lang]
    # the file that receives directives: the first one; add the probe function to it
    target = sorted(files)[0]
    if name != "file-header":
        files[target] = files[target].rstrip("\n") + "\n" + PROBE[lang]
    ocmd = _other_cmd(name)
    oprefix = load.COMMAND_PREFIX[ocmd][0]
    base_all, r0 = _run(cmd, files, cfg)
    obase_all, _ro = _run(ocmd, files, cfg)
    if base_all is None:
        acc.fail({"linter": name, "lang": lang, "mode": "baseline-exit"}, {"linter": name, "lang": lang}, "exit 0/1", r0["stderr"][-300:])
        return acc
    base = [t for t in base_all if t[0].startswith(prefix)]
    obase = [t for t in (obase_all or []) if t[0].startswith(oprefix)]
    mine = sorted({t[2] for t in base if t[1] == target})
    if not mine:
        acc.stat("skipped_no_violation_in_target_file_see_C19")
        acc.sample({"linter": name, "lang": lang, "skipped": True})
        return acc
    lines = files[target].split("\n")
    rule_at = {t[2]: t[0] for t in base if t[1] == target}
    v1 = mine[0]
    v2 = mine[1] if len(mine) > 1 else None
    free = next((i for i in range(len(lines), 0, -1) if lines[i - 1].strip() and i not in mine and not any(t[1] == target and t[2] == i for t in obase) and not lines[i - 1].strip().startswith(("}", ")", '"""', "'''"))), None)
    other_name = "srp" if prefix != "srp" else "nesting"
    fail_map: dict = {}

    def expect_and_check(form, spelling, placement, new_files, new_cfg, shift, scope, names_me, extra=None, n=0):
        got_all, r = _run(cmd, new_files, new_cfg, extra)
        acc.case()
        acc.edge()
        acc.valid()
        removed = {t for t in base if t[1] == target and scope(t[2])} if names_me else set()
        want = sorted((t[0], t[1], shift(t[2]) if t[1] == target else t[2], t[3], t[4]) for t in base if t not in removed)
        if removed or (not names_me and base):
            acc.nt((name, lang, form, spelling, placement))
        case = {"linter": name, "lang": lang, "form": form, "spelling": spelling, "placement": placement, "cmd": cmd, "files": new_files, "config": new_cfg, "extra_files": extra}
        if got_all is None:
            fail_map.setdefault((form, placement, f"exit{r['exit_code']}"), []).append((spelling, case, want, r["stderr"][-200:]))
            return
        got = sorted((t[0], t[1], t[2], t[3], t[4]) for t in got_all if t[0].startswith(prefix))
        # messages may quote line numbers (dry); compare on rule/file/line
        g3 = sorted((t[0], t[1], t[2]) for t in got)
        w3 = sorted((t[0], t[1], t[2]) for t in want)
        acc.outcome((name, form, spelling, placement, len(g3)))
        if g3 != w3:
            missing = [t for t in w3 if t not in g3]
            extra_v = [t for t in g3 if t not in w3]
            if extra_v and not missing:
                mode = "not-suppressed" if names_me else "unexpected-extra"
            elif missing and not extra_v:
                mode = "over-suppressed"
                if form == "block" and all(t[1] == target and t[2] < shift(n) for t in missing):
                    # one root cause for every linter: the shared parser lets a block also
                    # suppress matching violations that lie BEFORE its ignore-start marker
                    mode = "block-suppresses-earlier-violations"
            else:
                mode = "differs"
            fail_map.setdefault((form, placement, mode), []).append((spelling, case, w3, g3))
        # other linter unchanged up to shift
        if placement == "v1" and form not in ("thailintignore", "config-ignore", "config-ignore-explicit"):
            og_all, _r2 = _run(ocmd, new_files, new_cfg, extra)
            acc.edge()
            og = sorted((t[0], t[1], t[2]) for t in (og_all or []) if t[0].startswith(oprefix))
            ow = sorted((t[0], t[1], shift(t[2]) if t[1] == target else t[2]) for t in obase)
            bare_hits = spelling == "bare" and any(t[1] == target and scope(t[2]) for t in obase)
            if og != ow and not bare_hits:
                fail_map.setdefault((form, "other-linter", "other-changed"), []).append((spelling, {**case, "other_cmd": ocmd}, ow, og))

    path_based = name == "file-placement"  # its violations carry a fixed line 1, whatever the content
    for form in FORMS:
        if name == "file-header" and form in ("same-line", "next-line", "block", "file-late"):
            continue  # line insertions above/inside the header change what this linter inspects
        if path_based and form in ("next-line", "block"):
            continue
        if name == "dry" and form in ("same-line", "next-line", "block"):
            continue  # a duplicate-code violation spans a block; one-line scopes do not apply
        for spelling in SPELLINGS:
            placements = [("v1", v1, True)]
            if form in ("same-line", "next-line", "block"):
                if v2:
                    placements.append(("v2", v2, True))
                if free:
                    placements.append(("no-violation-line", free, True))
            if spelling == "prefix" and name != "file-header":
                placements.append(("names-other-linter", v1, False))
            for placement, n, names_me in placements:
                rid = rule_at.get(n, rule_at[v1])
                sp = other_name if placement == "names-other-linter" else _spelled(spelling, rid, prefix, aliases)
                if sp is None:
                    continue
                if spelling == "wildcard" and "." not in rid:
                    continue  # `prefix.*` for a rule id without sub-rules: not defined by the docs
                if form in ("thailintignore", "config-ignore", "config-ignore-explicit", "linter-ignore"):
                    if spelling != "full" or placement not in ("v1", "names-other-linter"):
                        continue
                    # pattern forms: matching the file / matching nothing
                    for pat, hit in ((target, True), ("no_such_dir/", False)):
                        if hit and d.get("cross_file"):
                            continue  # ignoring one partner legitimately changes the other's findings
                        nf, nc, extra = dict(files), load.deep_merge(cfg, {}), None
                        if form == "thailintignore":
                            extra = {".thailintignore": pat + "\n"}
                        elif form == "config-ignore":
                            nc = load.deep_merge(nc, {"ignore": [pat]})
                        elif form == "config-ignore-explicit":
                            nc = load.deep_merge(nc, {"ignore": [pat]})
                            extra = {"@@explicit-config": "1"}
                        else:
                            if placement == "names-other-linter":
                                osec = "srp" if section != "srp" else "nesting"
                                nc = load.deep_merge(nc, {osec: {"ignore": [pat]}})
                            else:
                                nc = load.deep_merge(nc, {section: {"ignore": [pat]}})
                        me = hit and (placement == "v1" or form != "linter-ignore")
                        expect_and_check(form, "pattern-hit" if hit else "pattern-miss", placement, nf, nc, lambda x: x, (lambda x: True), me, extra)
                    continue
                new_lines, shift, scope = _insert(lines, form, n, sp, cm)
                if path_based:
                    shift = lambda x: x  # noqa: E731
                nf = dict(files)
                nf[target] = "\n".join(new_lines)
                expect_and_check(form, spelling, placement, nf, cfg, shift, scope, names_me and placement != "no-violation-line", n=n)
    # two directives stacked on ONE violation: one names the linter, the other names another linter;
    # the unrelated one must not cancel the matching one (all ordered pairs of distinct line forms)
    if not path_based and name not in ("file-header", "dry"):
        for f_mine in ("same-line", "next-line", "block"):
            for f_other in ("same-line", "next-line", "block"):
                if f_mine == f_other:
                    continue
                s_mine = _spelled("full", rule_at[v1], prefix, aliases)
                # the unrelated directive goes in first (outer), the matching one second, so that
                # the matching one stays adjacent to the violation line
                La, shift_a, _sc = _insert(lines, f_other, v1, other_name, cm)
                Lb, shift_b, _sc2 = _insert(La, f_mine, shift_a(v1), s_mine, cm)
                nf = dict(files)
                nf[target] = "\n".join(Lb)
                expect_and_check(f"{f_mine}+unrelated-{f_other}", "full", "stacked-on-v1", nf, cfg, (lambda x, a=shift_a, b=shift_b: b(a(x))), (lambda x: x == v1), True, n=v1)
    # thorough: two directives in one file, every ordered pair of line-scoped forms on two violations
    if item.get("pairs") and v2 and not path_based and name not in ("file-header", "dry"):
        for f1 in ("same-line", "next-line", "block"):
            for f2 in ("same-line", "next-line", "block"):
                for sp_name in ("full", "prefix"):
                    s1 = _spelled(sp_name, rule_at.get(v1, rule_at[v1]), prefix, aliases)
                    s2 = _spelled(sp_name, rule_at.get(v2, rule_at[v1]), prefix, aliases)
                    L2, shift2, scope2 = _insert(lines, f2, v2, s2, cm)
                    L3, shift1, scope1 = _insert(L2, f1, v1, s1, cm)
                    nf = dict(files)
                    nf[target] = "\n".join(L3)
                    expect_and_check(f"{f1}+{f2}", sp_name, "v1+v2", nf, cfg, (lambda x, a=shift1, b=shift2: a(b(x))), (lambda x, a=scope1, b=scope2: a(x) or b(x)), True, n=v1)
    # aggregate: one signature per (form, placement, mode) with the set of failing spellings
    for (form, placement, mode), lst in fail_map.items():
        sp = sorted({s for s, _c, _w, _g in lst})
        tested = [s for s in SPELLINGS if s != "alias" or aliases]
        spell_sig = "all" if set(sp) >= set(tested) else sp
        s0, case, w, g = lst[0]
        if mode == "block-suppresses-earlier-violations":
            sig = {"form": "block", "mode": mode}
        else:
            sig = {"linter": name, "lang": lang, "form": form, "placement": placement, "mode": mode, "spellings": spell_sig}
        acc.fail(sig, case, w[:4] if isinstance(w, list) else w, g[:4] if isinstance(g, list) else g)
    acc.sample({"linter": name, "lang": lang, "target": target, "violation_lines": mine, "forms": FORMS, "spellings": SPELLINGS})
    return acc


def replay_case(case) -> list[dict]:
    fs = dict(case.get("files") or {})
    explicit = bool((case.get("extra_files") or {}).get("@@explicit-config"))
    if case.get("extra_files"):
        fs.update({k: v for k, v in case["extra_files"].items() if not k.startswith("@@")})
    if case.get("config"):
        fs["lintcfg/chosen.yaml" if explicit else ".thailint.yaml"] = yaml_dump(case["config"])
    root = project(fs)
    r = obs.cli_subprocess([case.get("cmd", "dry"), *(["--config", "lintcfg/chosen.yaml"] if explicit else []), "--format", "json", "."], root)
    for n, c in fs.items():
        print(f"--- {n} ---\n{c}")
    print(f"$ thailint {case.get('cmd', 'dry')} --format json .\nexit={r['exit_code']}\n{r['stdout'][:2000]}")
    remove(root)
    if case.get("dry_lines"):
        a = _dry_lines({"linter": "dry", "lang": case["lang"], "dry_lines": True})
        return [f for f in a.failures if f["case"].get("form") == case.get("form") and f["case"].get("spelling") == case.get("spelling") and f["case"].get("how") == case.get("how")]
    a = run_item({"linter": case["linter"], "lang": case["lang"], "pairs": False})
    return [f for f in a.failures if f["signature"].get("form") == case["form"] and f["signature"].get("placement") in (case["placement"], "other-linter")]
