"""C10 — directory, file-list, CLI and library runs agree with one another.

E-input: generated multi-language trees (<= 6 files, <= 3 directories) built from the documented
violating examples; targets = the directory, every non-empty subset of the files as an explicit
list, every single file, mixed file+directory lists; entry points = Orchestrator / Linter (library)
and every CLI command.  Oracles: for per-file rules lint(dir) = U lint(f) and lint(list) = U over
the list (multisets); for every rule incl. cross-file ones library(target) = CLI(target).
"""

from __future__ import annotations

import collections
import itertools

from mc.catalog import load
from mc.core import env, obs
from mc.core.enum import chunks
from mc.core.isolate import project, remove, yaml_dump
from mc.core.runner import Acc

PROPERTY = "C10"
LEVEL = "model_checking"
RULE = (
    "case = (tree, target, entry point): target ranges over the directory, all 2^n-1 explicit file "
    "lists, every single file and mixed file+directory lists; entry points are the library API and "
    "every CLI command; non-trivial = the union side of the equation contains at least one "
    "violation; distinct by the whole tuple"
)
ASSUMPTIONS = [
    "per-file rules = every rule except dry.* and stringly-typed.* (the two documented cross-file linters)",
    "violations are compared as multisets of (rule id, project-relative file, line, column, message)",
]
BOUND = {
    "quick": "3 trees x (directory + 63 subsets + 6 single files) through the library; every command x (directory, each file, 12 file lists, 3 mixed lists) through the CLI; library vs CLI for every command x (directory, each file)",
    "thorough": "8 trees, all subsets through the CLI for every command",
}
MIN_NONTRIVIAL = {"quick": 300, "thorough": 1500}
CROSS = ("dry", "stringly-typed")


def _trees(n: int):
    zoo, cfg, index = load.zoo_project()
    pools = {
        "py": [p for (nm, lg), ps in index.items() if lg == "python" and nm not in CROSS for p in ps],
        "ts": [p for (nm, lg), ps in index.items() if lg in ("typescript", "javascript") and nm not in CROSS for p in ps],
        "rs": [p for (nm, lg), ps in index.items() if lg == "rust" for p in ps],
    }
    dup = [("pkg/dup_a.py", zoo[index[("dry", "python")][0]]), ("lib/dup_b.py", zoo[index[("dry", "python")][1]])] if ("dry", "python") in index else []
    st = [(p, zoo[p]) for p in index.get(("stringly-typed", "python"), [])]
    out = []
    for t in range(n):
        files = {}
        # rotate through the pools so that every tree mixes three languages
        picks = [pools["py"][(t * 2) % len(pools["py"])], pools["py"][(t * 2 + 1) % len(pools["py"])], pools["ts"][t % len(pools["ts"])], pools["rs"][t % len(pools["rs"])]]
        layout = [("a/", 0), ("a/b/", 1), ("", 2), ("c/", 3)] if t % 3 else [("", 0), ("", 1), ("", 2), ("", 3)]
        for (d, i) in layout:
            src = picks[i]
            name = ("same" if t % 3 == 2 else f"m{i}") + "." + src.rsplit(".", 1)[1]
            files[d + name] = zoo[src]
        if t % 2 == 0 and dup:
            files[dup[0][0]], files[dup[1][0]] = dup[0][1], dup[1][1]
        elif st:
            for p, c in st[:2]:
                files["s/" + p.split("/")[-1]] = c
        # two functions of depth 3 and 4 that sit between the per-language limits below
        files["lim/deep.py"] = "def deep_py(a):\n    if a:\n        for x in a:\n            work(x)\n"
        files["lim/deep.ts"] = "export function deepTs(a: number[]) {\n  if (a) {\n    for (const x of a) {\n      if (x) {\n        work(x);\n      }\n    }\n  }\n}\n"
        # per-language limits that differ: a mixed-language run must judge each file by its own
        out.append((files, load.deep_merge(cfg, {"dry": {"enabled": True}, "nesting": {"python": {"max_nesting_depth": 2}, "typescript": {"max_nesting_depth": 6}, "javascript": {"max_nesting_depth": 5}, "rust": {"max_nesting_depth": 3}}})))
    return out


def _probe_tree():
    """A tree of files that are only interesting TOGETHER: extensionless scripts whose language is
    sniffed from the shebang (python next to shell), two findings on one line that differ only in
    the column, and pairs in which one file defines a name that would change the reading of the
    other if analyzer state leaked between files.  It lives under a parent directory called
    `build` so that the absolute spelling of every target runs through an always-excluded NAME
    that lies above the project root (e.g. a CI checkout below /…/build/)."""
    from mc.checks.c08 import PROBES  # noqa: PLC0415

    files = {
        "bin/tool": "#!/usr/bin/env python3\nimport sys\n\n\ndef main(argv):\n    print(argv)\n    if len(argv) > 7:\n        return 42\n    return 0\n",
        "bin/runner": "#!/bin/sh\n# def main(argv): print(argv)\necho 42\nexit 7\n",
        "twice.py": "def area(w, h):\n    return 3.5 * w + 3.5 * h\n",
        "twice.ts": "export function area(w: number, h: number): number {\n  return 3.5 * w + 3.5 * h;\n}\n",
    }
    # ignore patterns that match a directory's NAME but not the paths of the files inside it:
    # whatever they mean, they must mean the same to a directory walk and to explicit files
    files["auto_gen/made.py"] = "def made(n):\n    print(n, 3611)\n    return n\n"
    files["cache.d/kept.py"] = "def kept(n):\n    print(n, 3612)\n    return n\n"
    files[".thailintignore"] = "*_gen\nstale\n"
    files["stale/old.py"] = "def old(n):\n    print(n, 3613)\n    return n\n"
    for n in ("probe_alias.py", "probe_regex.py", "probe_list.py", "probe_str.py", "probe_from_re.py", "probe_local_search.py"):
        files["pairs/" + n] = PROBES[n]
    _zoo, cfg, _index = load.zoo_project()
    # the project's own configuration is strict; alt/choice.yaml (for --config / config_file=)
    # mentions other sections only: nothing of the project's file may leak into such a run
    files["alt/choice.yaml"] = yaml_dump({"srp": {"max_methods": 9}, "dry": {"enabled": False}})
    files["alt/empty.yaml"] = "# nothing chosen here\n"
    # a second auto-discovered carrier with other (looser) settings: .thailint.yaml has precedence
    # for the command line and for the library alike
    files[".thailint.json"] = __import__("json").dumps({"nesting": {"max_nesting_depth": 9}, "magic-numbers": {"allowed_numbers": [3601, 3611, 3612, 3613, 3614, 42, 7]}})
    # a source directory whose NAME ends like a compiled artefact
    files["assets/scenes.obj/loader.py"] = "def load(n):\n    print(n, 3614)\n    return n\n"
    return files, load.deep_merge(cfg, {"dry": {"enabled": True}, "nesting": {"max_nesting_depth": 1}, "magic-numbers": {"allowed_numbers": []}, "ignore": ["cache.d"]})


def _tree(item):
    return _probe_tree() if item["tree"] == -1 else _trees(item["n"])[item["tree"]]


def _ms(vs):
    return collections.Counter(vs)


def _nm(vs, root):
    """Violations with paths quoted inside messages (duplicate code) made project-relative."""
    from mc.checks.c09 import _normmsg  # noqa: PLC0415

    return [(t[0], t[1], t[2], t[3], _normmsg(t[4], root, root)) for t in vs]


def _perfile(vs):
    return [t for t in vs if not t[0].startswith(CROSS)]


def items(tier: str, seed: int):
    n = 3 if tier == "quick" else 8
    out = []
    for t in [*range(n), -1]:
        out.append({"kind": "lib-subsets", "tree": t, "n": n})
        for block in chunks(load.ALL_COMMANDS, 4):
            out.append({"kind": "cli", "tree": t, "n": n, "cmds": block, "all_subsets": tier == "thorough"})
    out.append({"kind": "carriers", "tree": 0, "n": n})
    return out


def _lib_files(root, cfg, paths):
    from src.orchestrator.core import Orchestrator  # noqa: PLC0415

    env.reset_caches()
    with obs.cwd(root):
        o = Orchestrator(project_root=root, config=dict(cfg))
        return _nm(obs.norm([obs.vdict(v) for v in o.lint_files([root / p for p in paths])], root, root), root)


def _lib_dir(root, cfg, sub="."):
    from src.orchestrator.core import Orchestrator  # noqa: PLC0415

    env.reset_caches()
    with obs.cwd(root):
        o = Orchestrator(project_root=root, config=dict(cfg))
        return _nm(obs.norm([obs.vdict(v) for v in o.lint_directory(root / sub if sub != "." else root)], root, root), root)


def _diff_fail(acc, sig, case, want, got, note=""):
    cw, cg = _ms(want), _ms(got)
    if cw == cg:
        return
    missing = list((cw - cg).elements())
    extra = list((cg - cw).elements())
    rules = sorted({t[0] for t in missing + extra})
    for rid in rules:
        m = [t for t in missing if t[0] == rid]
        e = [t for t in extra if t[0] == rid]
        mode = "missing" if m and not e else ("extra" if e and not m else "differs")
        acc.fail({**sig, "rule": rid, "mode": mode}, case, [list(t) for t in m][:3], [list(t) for t in e][:3], note)


CARRIER_FILES = {
    "lim.py": "def lim(a, b):\n    if a:\n        for x in b:\n            print(x, 3621)\n    return 3622\n",
    "sub/deep.py": "def deep(a, b):\n    if a:\n        while b:\n            b -= 3623\n    return b\n",
    "lim.ts": "export function lim(a: boolean, b: number[]): number {\n  if (a) {\n    for (const x of b) {\n      use(x, 3624);\n    }\n  }\n  return 3625;\n}\n",
}
CARRIER_CFG = {"nesting": {"max_nesting_depth": 2}, "magic-numbers": {"allowed_numbers": [3621, 3624], "max_small_integer": 3}}


def _toml(cfg):
    out = []
    for sec, kv in cfg.items():
        out.append(f'[tool.thailint.{sec}]' if "-" not in sec else f'[tool.thailint."{sec}"]')
        out += [f"{k} = {__import__('json').dumps(v)}" for k, v in kv.items()]
        out.append("")
    return "\n".join(out)


def _carriers(acc):
    """The same settings carried by each auto-discovered configuration file in turn: the command
    line and the library must read the same carrier and so report the same violations."""
    from src.api import Linter  # noqa: PLC0415

    carriers = {
        ".thailint.yaml": yaml_dump(CARRIER_CFG),
        ".thailint.json": __import__("json").dumps(CARRIER_CFG),
        "pyproject.toml": '[project]\nname = "proj"\nversion = "0"\n\n' + _toml(CARRIER_CFG),
    }
    names = sorted(CARRIER_FILES)
    ref = {}
    for cname, text in carriers.items():
        root = project({**CARRIER_FILES, cname: text}, name="proj")
        for cmd in ("nesting", "magic-numbers"):
            prefix = load.COMMAND_PREFIX[cmd][0]
            for target in [*names, "."]:
                r = obs.cli_json([cmd, target], root)
                cli = [t for t in _nm(obs.norm(r["violations"] or [], root, root), root) if t[1] in CARRIER_FILES]
                env.reset_caches()
                with obs.cwd(root):
                    lib = [t for t in _nm(obs.norm([obs.vdict(v) for v in Linter(project_root=root).lint(root / target if target != "." else root) if v.rule_id.startswith(prefix)], root, root), root) if t[1] in CARRIER_FILES]
                acc.case()
                acc.edge()
                acc.valid()
                if cli or lib:
                    acc.nt(("carrier", cname, cmd, target))
                acc.outcome((cname, cmd, target, len(cli), len(lib)))
                _diff_fail(acc, {"edge": "library-vs-cli", "carrier": cname, "command": cmd}, {"tree": "carriers", "carrier": cname, "cmd": cmd, "target": target}, cli, lib, f"settings carried by {cname}: Linter.lint vs CLI")
                key = (cmd, target)
                if key in ref:
                    acc.edge()
                    _diff_fail(acc, {"edge": "carrier-vs-carrier", "carrier": cname, "command": cmd, "entry": "cli"}, {"tree": "carriers", "carrier": cname, "cmd": cmd, "target": target}, ref[key], cli, "the same settings carried by another auto-discovered file")
                else:
                    ref[key] = cli
        remove(root)
    # the settings differ from the defaults in both directions, so a carrier that is not read shows
    strict = [t for t in ref[("nesting", ".")]]
    if not strict:
        raise RuntimeError("carrier item is vacuous: max_nesting_depth 2 produced no nesting finding")
    acc.sample({"carriers": list(carriers), "commands": ["nesting", "magic-numbers"], "targets": [*names, "."]})


def run_item(item) -> Acc:
    acc = Acc()
    if item["kind"] == "carriers":
        _carriers(acc)
        return acc
    files, cfg = _tree(item)
    root = project({**files, ".thailint.yaml": yaml_dump(cfg)}, name="build/proj" if item["tree"] == -1 else "proj")
    names = sorted(n for n in files if not n.startswith((".thailint", "alt/")))
    k = item["kind"]
    if k == "lib-subsets":
        single = {f: _lib_files(root, cfg, [f]) for f in names}
        if item["tree"] == -1:
            # reference taken with no history at all: each file alone in its own fresh interpreter
            fresh = obs.api_subprocess(root, dict(cfg), [[f] for f in names])
            for f, vs in zip(names, fresh):
                acc.case()
                acc.edge()
                ref = None if vs is None else _nm(obs.norm(vs, root, root), root)
                if ref is None:
                    acc.fail({"edge": "fresh-process-reference", "mode": "no-output"}, {"tree": -1, "target": [f]}, "JSON", None)
                    continue
                _diff_fail(acc, {"edge": "single-file-fresh-process-vs-in-process", "entry": "library"}, {"tree": -1, "target": [f], "fresh": True}, ref, single[f], "the file linted alone in a fresh interpreter vs alone in a process that linted other files before")
                single[f] = ref
        whole = _lib_dir(root, cfg)
        acc.case(len(names) + 1)
        union = [t for f in names for t in _perfile(single[f])]
        acc.edge()
        acc.valid()
        if union:
            acc.nt((item["tree"], "dir"))
        # the directory run also lints the config file itself; compare on the tree's files
        whole_pf = [t for t in _perfile(whole) if t[1] in files]
        _diff_fail(acc, {"edge": "dir-vs-union", "entry": "library"}, {"tree": item["tree"], "target": "."}, union, whole_pf, "lint_directory vs union of single-file runs (per-file rules)")
        # the probe tree has more files than 2^n allows: all subsets of up to three files + the full list
        sizes = range(1, len(names) + 1) if item["tree"] != -1 else (1, 2, 3, len(names))
        for r in sizes:
            for subset in itertools.combinations(names, r):
                got = _perfile(_lib_files(root, cfg, list(subset)))
                want = [t for f in subset for t in _perfile(single[f])]
                acc.case()
                acc.edge()
                acc.valid()
                if want:
                    acc.nt((item["tree"], subset))
                acc.outcome((len(want), len(got)))
                _diff_fail(acc, {"edge": "list-vs-union", "entry": "library"}, {"tree": item["tree"], "target": list(subset)}, want, got, "lint_files(list) vs union of single-file runs (per-file rules)")
        # sub-directories
        subdirs = sorted({f.rsplit("/", 1)[0] for f in names if "/" in f})
        for d in subdirs:
            got = [t for t in _perfile(_lib_dir(root, cfg, d))]
            want = [t for f in names if f.startswith(d + "/") for t in _perfile(single[f])]
            acc.case()
            acc.edge()
            _diff_fail(acc, {"edge": "dir-vs-union", "entry": "library"}, {"tree": item["tree"], "target": d}, want, got)
        acc.sample({"tree": names, "targets": "directory, all subsets, sub-directories", "single_file_violations": {f: len(single[f]) for f in names}})
    elif k == "cli":
        from src.api import Linter  # noqa: PLC0415

        for cmd in item["cmds"]:
            prefix = load.COMMAND_PREFIX[cmd][0]
            cross = prefix.startswith(CROSS)

            def cli(targets):
                r = obs.cli_json([cmd, *targets], root)
                vs = _nm(obs.norm(r["violations"] or [], root, root), root)
                return [t for t in vs if t[1] in files or t[1] == ".thailint.yaml"], r

            single = {}
            for f in names:
                single[f], r = cli([f])
                acc.case()
                if item["tree"] == -1:
                    rs = obs.cli_json([cmd, f], root, sub=True)
                    ref = [t for t in _nm(obs.norm(rs["violations"] or [], root, root), root) if t[1] in files]
                    acc.edge()
                    _diff_fail(acc, {"edge": "single-file-fresh-process-vs-in-process", "entry": "cli", "command": cmd}, {"tree": -1, "cmd": cmd, "target": f, "fresh": True}, ref, single[f], "CLI on the file in a fresh interpreter vs in a process that linted other files before")
                    single[f] = ref
                # library vs CLI on the single file
                env.reset_caches()
                with obs.cwd(root):
                    lib = _nm(obs.norm([obs.vdict(v) for v in Linter(project_root=root).lint(root / f) if v.rule_id.startswith(prefix)], root, root), root)
                acc.edge()
                acc.valid()
                if single[f] or lib:
                    acc.nt((item["tree"], cmd, f, "lib-vs-cli"))
                _diff_fail(acc, {"edge": "library-vs-cli", "target": "file", "command": cmd}, {"tree": item["tree"], "cmd": cmd, "target": f}, single[f], lib, "Linter.lint(file) vs CLI on the same file")
            whole, r = cli(["."])
            whole = [t for t in whole if t[1] in files]
            env.reset_caches()
            with obs.cwd(root):
                lib = [t for t in _nm(obs.norm([obs.vdict(v) for v in Linter(project_root=root).lint(root) if v.rule_id.startswith(prefix)], root, root), root) if t[1] in files]
            acc.case()
            acc.edge()
            acc.valid()
            if whole or lib:
                acc.nt((item["tree"], cmd, ".", "lib-vs-cli"))
            _diff_fail(acc, {"edge": "library-vs-cli", "target": "dir", "command": cmd}, {"tree": item["tree"], "cmd": cmd, "target": "."}, whole, lib, "Linter.lint(dir) vs CLI on the same directory")
            if item["tree"] == -1:
                # an explicitly chosen configuration file: CLI --config vs Linter(config_file=...)
                for cfile, cname in (("alt/choice.yaml", "explicitly-chosen-file"), ("alt/empty.yaml", "explicitly-chosen-empty-file")):
                    chosen, r = cli(["--config", cfile, "."])
                    chosen = [t for t in chosen if t[1] in files]
                    env.reset_caches()
                    with obs.cwd(root):
                        lib2 = [t for t in _nm(obs.norm([obs.vdict(v) for v in Linter(config_file=str(root / cfile), project_root=root).lint(root) if v.rule_id.startswith(prefix)], root, root), root) if t[1] in files]
                    acc.case(2)
                    acc.edge()
                    acc.valid()
                    if chosen or lib2:
                        acc.nt((item["tree"], cmd, ".", cname))
                    _diff_fail(acc, {"edge": "library-vs-cli", "target": "dir", "command": cmd, "config": cname}, {"tree": -1, "cmd": cmd, "target": f"--config {cfile} ."}, chosen, lib2, "CLI --config FILE vs Linter(config_file=FILE) on the same directory")
            # the same directory spelled as an absolute path
            whole_abs, r = cli([str(root)])
            whole_abs = [t for t in whole_abs if t[1] in files]
            acc.case()
            acc.edge()
            _diff_fail(acc, {"edge": "dir-dot-vs-absolute", "entry": "cli", "command": cmd}, {"tree": item["tree"], "cmd": cmd, "target": "<absolute project dir>"}, whole, whole_abs, "CLI on `.` vs CLI on the absolute path of the same directory")
            if cross:
                continue
            union_all = [t for f in names for t in single[f]]
            acc.edge()
            if union_all:
                acc.nt((item["tree"], cmd, "dir-union"))
            _diff_fail(acc, {"edge": "dir-vs-union", "entry": "cli", "command": cmd}, {"tree": item["tree"], "cmd": cmd, "target": "."}, union_all, whole, "CLI directory run vs union of CLI single-file runs")
            subsets = [s for r_ in range(2, len(names) + 1) for s in itertools.combinations(names, r_)]
            if not item["all_subsets"]:
                subsets = subsets[:: max(1, len(subsets) // 12)]
            for subset in subsets:
                got, r = cli(list(subset))
                want = [t for f in subset for t in single[f]]
                acc.case()
                acc.edge()
                acc.valid()
                if want:
                    acc.nt((item["tree"], cmd, subset))
                _diff_fail(acc, {"edge": "list-vs-union", "entry": "cli", "command": cmd}, {"tree": item["tree"], "cmd": cmd, "target": list(subset)}, want, got, "CLI file list vs union of CLI single-file runs")
            # mixed file + directory arguments
            subdirs = sorted({f.split("/", 1)[0] for f in names if "/" in f})
            for d in subdirs[:3]:
                outside = [f for f in names if not f.startswith(d + "/")][:2]
                got, r = cli([d, *outside])
                want = [t for f in names if f.startswith(d + "/") for t in single[f]] + [t for f in outside for t in single[f]]
                acc.case()
                acc.edge()
                if want:
                    acc.nt((item["tree"], cmd, d, "mixed"))
                _diff_fail(acc, {"edge": "mixed-vs-union", "entry": "cli", "command": cmd}, {"tree": item["tree"], "cmd": cmd, "target": [d, *outside]}, want, got, "CLI mixed file+directory list vs union")
        acc.sample({"tree": names, "commands": item["cmds"]})
    remove(root)
    return acc


def replay_case(case) -> list[dict]:
    n = 8 if isinstance(case["tree"], int) and case["tree"] >= 3 else 3
    if case.get("target") == "<absolute project dir>":
        case = {**case, "target": "<absolute project dir>"}
    if case.get("tree") == "carriers":
        a = run_item({"kind": "carriers", "tree": 0, "n": n})
        out = [f for f in a.failures if f["case"] == case]
        for f in out:
            print(f["signature"], "\n  only in CLI/reference:", f["expected"], "\n  only in library/this carrier:", f["observed"])
        return out
    if "cmd" in case:
        a = run_item({"kind": "cli", "tree": case["tree"], "n": n, "cmds": [case["cmd"]], "all_subsets": True})
    else:
        a = run_item({"kind": "lib-subsets", "tree": case["tree"], "n": n})
    out = [f for f in a.failures if f["case"].get("target") == case.get("target")]
    for f in out:
        print(f["signature"], "\n  only in union/CLI:", f["expected"], "\n  only in run/library:", f["observed"])
    return out
