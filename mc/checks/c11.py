"""C11 — no input makes a linter crash, hang, or silently drop its analysis.

Fault enumeration: (1) every byte string up to a length bound in every file type, (2) the complete
single-mutation neighbourhood of every healthy seed file (truncation at each offset, token
deletion / duplication, bracket flips, poison sequences at each line start, line-ending
conversions), (3) size faults (deep nesting, huge lines, huge expressions), (4) unknown languages
and empty files.  Every faulty file is linted together with two healthy siblings.  Oracle: the run
terminates, nothing escapes, no rule failure is swallowed, the siblings' findings are unchanged.
"""

from __future__ import annotations

import os
import re
import signal
from pathlib import Path

from mc.catalog import load
from mc.core import env, obs
from mc.core.enum import chunks
from mc.core.isolate import project, remove
from mc.core.runner import Acc

PROPERTY = "C11"
LEVEL = "fault_enumeration"
RULE = (
    "case = one faulty file (byte string, single mutation of a seed at one position, or a size "
    "fault) linted with two healthy siblings by all rules; the mutation menu is applied at every "
    "position; non-trivial = the faulty content differs from every healthy seed; distinct by content hash"
)
ASSUMPTIONS = [
    "a swallowed failure is observed through the orchestrator's logger (in-process) or its stderr text (fresh process)",
    "hangs are detected by a per-case timeout (10 s in-process, 120 s for size faults in a fresh process)",
]
BOUND = {
    "quick": "all byte strings of length <=1 and length 2 over 24 interesting bytes x 6 file types; every seed (one per linter/language) x {truncate at every 3rd offset, delete/duplicate every token, flip every bracket, 7 poison sequences at every line start, CRLF/CR/mixed}; size faults up to 1000 levels / 1e5 characters; unknown types",
    "thorough": "all byte strings of length <=2 over the full alphabet for .py/.ts/.rs, truncation at every offset, size faults up to 5000 levels / 1e6 characters, 2-mutation neighbourhood of three small seeds",
}
MIN_NONTRIVIAL = {"quick": 10000, "thorough": 100000}
EXTS = [".py", ".ts", ".js", ".rs", ".tsx", ""]
INTERESTING = [0x00, 0xEF, 0xBB, 0xBF, 0x0D, 0x0A, 0x0C, 0x80, 0xFF, 0x22, 0x27, 0x60, 0x28, 0x29, 0x5B, 0x5D, 0x7B, 0x7D, 0x23, 0x2F, 0x5C, 0x40, 0x3A, 0x20]
POISON = [b"\x00", b"\xef\xbb\xbf", b"\xff", b"\r", "\u2028".encode(), b"\x0c", b'"']
_TOP = "alpha = source_value\nbeta = alpha + offset_one\ngamma = beta + offset_two\ndelta = gamma + offset_three\nepsilon = delta + offset_four\n\n\n"
SIB = {"sib_a.py": _TOP + "def sibling_a(value, mode):\n    print(value, 3601)\n    if mode == \"fast\" or mode == \"slow\":\n        return value * 2\n    return value\n", "sib_c.py": _TOP + "def sibling_c(job):\n    return job\n", "sib_b.ts": "export function siblingB(v: number) {\n  console.log(v);\n  return v * 3601;\n}\n"}


class _Timeout(Exception):
    pass


def _alarm(_s, _f):
    raise _Timeout()


DIRECTIVE_SEEDS = [
    ("imports/python", ".py", "from os import (\n    path,\n    sep,\n)\nfrom typing import (\n    Any,\n)\n\n\ndef use(v: Any):\n    return path.join(sep, str(v))\n"),
    ("directives-long-lists/python", ".py", "def rate(v):\n    print(v, 3601)  # thailint: ignore[improper-logging,magic-numbers,nesting.excessive-depth,srp]\n    return v * 3602  # thailint: ignore[magic-numbers.numeric-literal,improper-logging.print-statement]\n"),
    ("directives-long-lists/typescript", ".ts", "export function rate(v: number) {\n  console.log(v, 3601); // thailint: ignore[improper-logging,magic-numbers,nesting.excessive-depth,srp]\n  return v * 3602; // thailint: ignore[magic-numbers.numeric-literal,improper-logging.print-statement]\n}\n"),
    ("directives/python", ".py", "# thailint: ignore-file[file-header]\ndef rate(v):\n    print(v)  # thailint: ignore[improper-logging]\n    # thailint: ignore-next-line[magic-numbers]\n    limit = 3601\n    # thailint: ignore-start nesting\n    if v:\n        return limit\n    # thailint: ignore-end\n    return v * 3602  # thailint: ignore[magic-numbers]\n"),
    ("directives/typescript", ".ts", "// thailint: ignore-file[file-header]\nexport function rate(v: number) {\n  console.log(v); // thailint: ignore[improper-logging]\n  // thailint: ignore-next-line[magic-numbers]\n  const limit = 3601;\n  return v * 3602 + limit; // thailint: ignore[magic-numbers]\n}\n"),
    ("directives/rust", ".rs", "fn rate(v: Option<i32>) -> i32 {\n    let x = v.unwrap(); // thailint: ignore[unwrap-abuse]\n    x * 3602 // thailint: ignore[magic-numbers]\n}\n"),
]
PREFIXES = [b"#!", b"#!/bin/sh\n", b"#!/usr/bin/env python\n", b"#!/usr/bin/env python # caf", b"\xef\xbb\xbf#!/usr/bin/python\n"]


def _seeds():
    out = list(DIRECTIVE_SEEDS)
    for name, lang, fs, _cfg in load.all_triggers():
        for rel, code in fs.items():
            out.append((f"{name}/{lang}", Path(rel).suffix or ".py", code))
            break
    return out


def items(tier: str, seed: int):
    out = []
    # (1) byte strings
    singles = [bytes([b]) for b in range(256)] + [b""]
    pairs = [bytes([a, b]) for a in INTERESTING for b in INTERESTING]
    for ext in EXTS:
        for block in chunks(singles + pairs, 140):
            out.append({"kind": "bytes", "ext": ext, "contents": block})
    if tier == "thorough":
        for ext in (".py", ".ts", ".rs"):
            for a in range(256):
                out.append({"kind": "bytes", "ext": ext, "contents": [bytes([a, b]) for b in range(256)]})
    # (1b) every single byte (and every pair of interesting bytes) after a script/BOM prefix
    for ext in EXTS:
        for pre in PREFIXES:
            out.append({"kind": "bytes", "ext": ext, "contents": [pre + c for c in singles], "prefix": pre.hex()})
        out.append({"kind": "bytes", "ext": ext, "contents": [b"#!" + c for c in pairs], "prefix": "2321"})
    # (2) single mutations of seeds
    for sid, ext, code in _seeds():
        out.append({"kind": "mutations", "seed": sid, "ext": ext, "code": code, "step": 3 if tier == "quick" else 1})
    # (3) size faults, (4) unknown types
    levels = [50, 200, 1000] if tier == "quick" else [50, 200, 1000, 5000]
    widths = [10**5] if tier == "quick" else [10**5, 10**6]
    for lang in ("py", "ts", "rs"):
        for n in levels:
            out.append({"kind": "size", "lang": lang, "levels": [n], "widths": []})
        for w in widths:
            out.append({"kind": "size", "lang": lang, "levels": [], "widths": [w]})
    for lang in ("py", "ts", "rs"):
        out.append({"kind": "size", "lang": lang, "levels": [], "widths": [], "literals": True})
    out.append({"kind": "unknown"})
    return out


def _orch(root):
    from src.orchestrator.core import Orchestrator  # noqa: PLC0415

    env.reset_caches()
    return Orchestrator(project_root=root, config={"dry": {"enabled": True}})


def _lint_case(o, root, paths):
    with obs.swallow_tap() as tap:
        signal.signal(signal.SIGALRM, _alarm)
        signal.alarm(10)
        try:
            vs = o.lint_files(paths)
            res = ("ok", [obs.vdict(v) for v in vs])
        except _Timeout:
            res = ("timeout", [])
        except RecursionError as e:
            res = ("exception", f"RecursionError: {str(e)[:80]}")
        except Exception as e:  # noqa: BLE001
            res = ("exception", f"{type(e).__name__}: {str(e)[:120]}")
        finally:
            signal.alarm(0)
        return res, list(tap.records)


def _sw_sig(rec: str):
    m = re.match(r"Rule (\S+) failed on .* \[(\w*)\]", rec)
    if m:
        return {"rule": m.group(1), "exc": m.group(2)}
    return {"rule": "?", "exc": rec[-40:]}


HANG_SECONDS = 20


def _child_loop(root, cases, start, fault_position, wfd):
    """Runs in a forked child: lint cases[start:] one after the other on one long-lived
    orchestrator and stream one JSON line per case; the parent kills us when a case hangs (a
    catastrophic regular expression cannot be interrupted by a signal handler in-process)."""
    import json as _json  # noqa: PLC0415

    out = os.fdopen(wfd, "w")
    o = _orch(root)
    sib_paths = [root / n for n in SIB]
    for idx in range(start, len(cases)):
        fname, content, _desc = cases[idx]
        out.write(_json.dumps({"start": idx}) + "\n")
        out.flush()
        p = root / fname
        p.write_bytes(content)
        order = [*sib_paths[:fault_position], p, *sib_paths[fault_position:]]
        res, sw = _lint_case(o, root, order)
        if res[0] != "ok":
            o = _orch(root)
        payload = {"done": idx, "status": res[0], "sw": sw}
        if res[0] == "ok":
            payload["viol"] = [list(t) for t in obs.norm(res[1], root, root)]
        else:
            payload["detail"] = res[1] if isinstance(res[1], str) else ""
        out.write(_json.dumps(payload, default=str) + "\n")
        out.flush()
        p.unlink(missing_ok=True)
    out.close()
    os._exit(0)


def _run_cases(acc: Acc, cases, kind, fault_position: int = 0):
    """cases: list of (file name, bytes, descriptor); fault_position = index of the faulty file in
    the list handed to lint_files (0 = before the healthy files, 1 = after the first of them)"""
    import json as _json  # noqa: PLC0415
    import select  # noqa: PLC0415

    root = project(dict(SIB))
    sib_paths = [root / n for n in SIB]
    base, _sw = _lint_case(_orch(root), root, sib_paths)
    base_sib = obs.norm(base[1], root, root) if base[0] == "ok" else None
    results: dict[int, dict] = {}
    start = 0
    while start < len(cases):
        rfd, wfd = os.pipe()
        pid = os.fork()
        if pid == 0:
            os.close(rfd)
            try:
                _child_loop(root, cases, start, fault_position, wfd)
            finally:
                os._exit(1)
        os.close(wfd)
        buf, current, finished = b"", None, False
        while True:
            ready, _w, _x = select.select([rfd], [], [], HANG_SECONDS)
            if not ready:
                break  # no progress: the child hangs in `current`
            chunk = os.read(rfd, 65536)
            if not chunk:
                finished = True
                break
            buf += chunk
            while b"\n" in buf:
                line, buf = buf.split(b"\n", 1)
                msg = _json.loads(line)
                if "start" in msg:
                    current = msg["start"]
                else:
                    results[msg["done"]] = msg
                    current = None
        os.close(rfd)
        if not finished or current is not None:
            os.kill(pid, signal.SIGKILL)
        os.waitpid(pid, 0)
        if current is not None:
            results[current] = {"done": current, "status": "timeout" if not finished else "died", "sw": []}
            start = current + 1
        elif finished:
            missing = [i for i in range(start, len(cases)) if i not in results]
            if not missing:
                break
            results[missing[0]] = {"done": missing[0], "status": "died", "sw": []}
            start = missing[0] + 1
        else:
            start = max(results, default=start - 1) + 1
    for idx, (fname, content, desc) in enumerate(cases):
        msg = results.get(idx, {"status": "died", "sw": []})
        acc.case()
        acc.valid()
        acc.nt((fname, content, fault_position))
        ext = Path(fname).suffix or "<none>"
        case = {"file": fname, "content_hex": content[:4000].hex(), "desc": desc, "kind": kind, "fault_position": fault_position}
        acc.outcome((msg["status"], len(msg["sw"])))
        if msg["status"] == "timeout":
            acc.fail({"mode": "hang", "ext": ext, "fault": desc.split("@")[0]}, case, "terminates", f"no result within {HANG_SECONDS} s (process killed)")
        elif msg["status"] == "died":
            acc.fail({"mode": "process-died", "ext": ext, "fault": desc.split("@")[0]}, case, "terminates normally", "the linting process died")
        elif msg["status"] == "exception":
            acc.fail({"mode": "exception-escapes", "ext": ext, "exc": msg.get("detail", "").split(":")[0]}, case, "exit 0/1 (no exception escapes lint_files)", msg.get("detail", ""))
        else:
            got_sib = [tuple(t) for t in msg.get("viol", []) if t[1] in SIB]
            if base_sib is not None and got_sib != [tuple(t) for t in base_sib]:
                acc.fail({"mode": "siblings-changed", "ext": ext}, case, base_sib[:3], got_sib[:3], "the healthy files' findings changed because of the faulty file")
        for rec in msg["sw"]:
            s_ = _sw_sig(rec)
            acc.fail({"mode": "swallowed-rule-failure", "ext": ext, **s_}, case, "no rule fails internally", rec[:300])
    remove(root)


def _mutations(code: str, step: int):
    b = code.encode()
    out = []
    for i in range(0, len(b), step):
        out.append((b[:i], f"truncate@{i}"))
    toks = [(m.start(), m.end()) for m in re.finditer(rb"\S+", b)]
    for (s, e) in toks:
        out.append((b[:s] + b[e:], f"delete-token@{s}"))
        out.append((b[:e] + b" " + b[s:e] + b[e:], f"duplicate-token@{s}"))
    flip = {b"(": b")", b")": b"(", b"[": b"]", b"]": b"[", b"{": b"}", b"}": b"{"}
    for i in range(len(b)):
        c = b[i : i + 1]
        if c in flip:
            out.append((b[:i] + flip[c] + b[i + 1 :], f"flip-bracket@{i}"))
            out.append((b[:i] + b[i + 1 :], f"drop-bracket@{i}"))
    starts = [0] + [m.end() for m in re.finditer(rb"\n", b)]
    for s in starts:
        for pz in POISON:
            out.append((b[:s] + pz + b[s:], f"poison-{pz.hex()}@{s}"))
    out.append((b.replace(b"\n", b"\r\n"), "crlf@0"))
    out.append((b.replace(b"\n", b"\r"), "cr-only@0"))
    out.append((b"".join(ln + (b"\r\n" if i % 2 else b"\n") for i, ln in enumerate(b.split(b"\n"))), "mixed-eol@0"))
    out.append((b"\xef\xbb\xbf" + b, "bom@0"))
    out.append((b.decode().encode("utf-16"), "utf16@0"))
    out.append((b.decode().encode("latin-1", "replace") + b"\xe9\xff", "latin1-tail@0"))
    return out


def run_item(item) -> Acc:
    acc = Acc()
    k = item["kind"]
    if k == "bytes":
        ext = item["ext"]
        _run_cases(acc, [(f"fault{ext}", c, f"bytes-{len(c)}@{c.hex()}") for c in item["contents"]], k)
        acc.sample({"file_type": ext or "<no extension>", "byte_strings": [c.hex() for c in item["contents"][:5]], "siblings": list(SIB)})
    elif k == "mutations":
        muts = _mutations(item["code"], item["step"])
        _run_cases(acc, [(f"fault{item['ext']}", c, f"{d}|seed={item['seed']}") for c, d in muts], k)
        _run_cases(acc, [(f"fault{item['ext']}", c, f"{d}|seed={item['seed']}") for c, d in muts], k, fault_position=1)
        acc.sample({"seed": item["seed"], "mutations": len(muts), "example": muts[len(muts) // 2][1]})
    elif k == "size":
        lang = item["lang"]
        ext = {"py": ".py", "ts": ".ts", "rs": ".rs"}[lang]
        gens = []
        for n in item["levels"]:
            if lang == "py":
                gens.append((f"deep-if-{n}", "def f(a):\n" + "".join("    " * (i + 1) + "if a:\n" for i in range(min(n, 90))) + "    " * (min(n, 90) + 1) + "pass\n"))
                gens.append((f"deep-parens-{n}", "x = " + "(" * n + "1" + ")" * n + "\n"))
                gens.append((f"deep-list-{n}", "x = " + "[" * n + "]" * n + "\n"))
                gens.append((f"long-chain-{n}", "x = a" + ".b" * n + "\n"))
            elif lang == "ts":
                gens.append((f"deep-if-{n}", "function f(a) {\n" + "if (a) {\n" * n + "work();\n" + "}\n" * n + "}\n"))
                gens.append((f"deep-parens-{n}", "const x = " + "(" * n + "1" + ")" * n + ";\n"))
                gens.append((f"deep-array-{n}", "const x = " + "[" * n + "]" * n + ";\n"))
            else:
                gens.append((f"deep-if-{n}", "fn f(a: bool) {\n" + "if a {\n" * n + "work();\n" + "}\n" * n + "}\n"))
                gens.append((f"deep-parens-{n}", "fn f() -> i32 { " + "(" * n + "1" + ")" * n + " }\n"))
                gens.append((f"deep-closure-{n}", "fn f() { let g = " + "|| " * n + "1; }\n"))
        if item.get("literals"):
            big_hex, big_dec = "0x" + "f" * 5000, "9" * 5000
            if lang == "py":
                gens.append(("open-docstring-blanks-20000", '"""' + " " * 20000 + "\ndef f():\n    return 1\n"))
                gens.append(("long-digit-string-20000", 'def f(mode):\n    if mode == "' + "9" * 20000 + 'x" or mode == "b":\n        return 1\n    return pick("' + "9" * 20000 + 'x")\n'))
                gens.append(("huge-int-hex-5000", f"LIMIT = 10\n\n\ndef f():\n    return {big_hex}\n"))
                gens.append(("huge-int-dec-5000", f"def f():\n    return {big_dec}\n"))
                gens.append(("huge-int-in-conditions-5000", f"def g(items, config):\n    out = []\n    for it in items:\n        if it > {big_hex}:\n            continue\n        out.append(it)\n    if {big_hex} in config:\n        out.append(config[{big_hex}])\n    print({big_hex})\n    return out\n"))
                gens.append(("lone-surrogate-escape-1", 'def f(mode):\n    if mode == "\\udc80" or mode == "plain":\n        return 1\n    return pick("\\udc80")\n'))
            elif lang == "ts":
                gens.append(("parallel-deep-parens-3000", "const x = " + "(" * 3000 + "1" + ")" * 3000 + ";\n"))
                gens.append(("open-jsdoc-blanks-20000", "/**" + " " * 20000 + "\nexport function f() {\n  return 1;\n}\n"))
                gens.append(("open-block-comment-stars-20000", "/*" + "*" * 20000 + "\nexport function f() {\n  return 1;\n}\n"))
                gens.append(("huge-int-hex-5000", f"export function f() {{\n  return {big_hex};\n}}\n"))
                gens.append(("huge-int-dec-5000", f"export function f() {{\n  return {big_dec};\n}}\n"))
                gens.append(("lone-surrogate-escape-1", 'export function f(mode: string) {\n  if (mode === "\\udc80" || mode === "plain") {\n    return 1;\n  }\n  return pick("\\udc80");\n}\n'))
            else:
                gens.append(("huge-int-hex-5000", f"fn f() -> u128 {{\n    {big_hex}\n}}\n"))
                gens.append(("huge-int-dec-5000", f"fn f() -> u128 {{\n    {big_dec}\n}}\n"))
        for w in item["widths"]:
            if lang == "py":
                gens.append((f"long-line-{w}", "x = '" + "a" * w + "'\n"))
                gens.append((f"many-terms-{w // 10}", "x = " + " + ".join(["1"] * (w // 10)) + "\n"))
                gens.append((f"many-functions-{w // 100}", "".join(f"def f{i}():\n    return {i}\n" for i in range(w // 100))))
            elif lang == "ts":
                gens.append((f"long-line-{w}", "const x = '" + "a" * w + "';\n"))
                gens.append((f"many-terms-{w // 10}", "const x = " + " + ".join(["1"] * (w // 10)) + ";\n"))
            else:
                gens.append((f"long-line-{w}", 'const X: &str = "' + "a" * w + '";\n'))
                gens.append((f"many-terms-{w // 10}", "fn f() -> i64 { " + " + ".join(["1"] * (w // 10)) + " }\n"))
        for cmdset in (("nesting", "magic-numbers", "improper-logging", "srp", "lbyl", "stringly-typed") if lang != "rs" else ("nesting", "magic-numbers", "unwrap-abuse", "clone-abuse", "blocking-async", "srp")):
            pass
        cmds = ("nesting", "magic-numbers", "improper-logging", "srp", "lbyl", "stringly-typed", "perf", "method-property") if lang != "rs" else ("nesting", "magic-numbers", "unwrap-abuse", "clone-abuse", "blocking-async", "srp")
        for desc, text in gens:
            extra_files, extra_argv = {}, []
            if desc.startswith("parallel-"):
                # enough files for the process pool to be used: the workers must cope like the parent
                extra_files = {f"filler/f{i:02d}.ts": f"export function filler{i}(v: number) {{\n  return v + {i};\n}}\n" for i in range(20)}
                extra_argv = ["--parallel"]
            root = project({**SIB, **extra_files, f"fault{ext}": text})
            fam = desc.rsplit("-", 1)[0]
            failed_rules, first_rec, causes = set(), None, set()
            for cmd in cmds:
                r = obs.cli_subprocess([cmd, *extra_argv, "--format", "json", "."], root, timeout=120)
                acc.case()
                acc.valid()
                acc.nt((lang, desc, cmd))
                case = {"file": f"fault{ext}", "generator": desc, "cmd": cmd, "kind": "size", "lang": lang}
                if r.get("timeout"):
                    acc.fail({"mode": "hang", "lang": lang, "fault": fam, "command": cmd}, case, "terminates", "no result within 120 s")
                elif r["exit_code"] not in (0, 1):
                    acc.fail({"mode": "crash-exit", "lang": lang, "fault": fam, "exit": r["exit_code"]}, case, "exit 0/1", r["stderr"][-400:])
                for rec in r.get("swallowed") or []:
                    m = re.search(r"Rule (\S+) failed", rec)
                    failed_rules.add(m.group(1) if m else "?")
                    first_rec = first_rec or (case, rec)
                if r.get("swallowed"):
                    found = set(re.findall(r"^(\w+(?:Error|Exception))\b", r["stderr"], flags=re.M))
                    causes |= found or {"unknown"}
            if failed_rules:
                # every command runs every rule, so the set of failing rules is the same for all
                # commands; one signature per (language, fault family)
                # one root cause per language: recursive tree walks hit the interpreter's recursion limit
                acc.fail({"mode": "swallowed-rule-failure", "lang": lang, "cause": sorted(causes)}, {**first_rec[0], "fault": fam, "rules": sorted(failed_rules)}, "no rule fails internally", first_rec[1][:300], f"fault {desc}: rules abandoned: {sorted(failed_rules)}")
            remove(root)
    elif k == "unknown":
        cases = []
        for ext in (".java", ".go", ".c", ".txt", ".md", ".json", ".yaml", ".xyz", ".PY", ".Ts"):
            for content in (b"", b" \n\t\n", b"\x00\x01\x02", b"def f(:\n", "ไทย\n".encode(), b"#!/usr/bin/env python\nprint(1)\n"):
                cases.append((f"fault{ext}", content, f"unknown-type@{ext}"))
        for content in (b"", b"   ", b"\n\n\n", b"\t", b"\xef\xbb\xbf"):
            for ext in EXTS:
                cases.append((f"fault{ext}", content, f"empty-ish@{ext or 'none'}"))
        _run_cases(acc, cases, k)
    return acc


def replay_case(case) -> list[dict]:
    acc = Acc()
    if case.get("kind") == "size" and any(x in case["generator"] for x in ("huge-int", "lone-surrogate", "open-", "long-digit", "parallel-")):
        a = run_item({"kind": "size", "lang": case["lang"], "levels": [], "widths": [], "literals": True})
        return [f for f in a.failures if f["case"].get("generator") == case["generator"] and f["case"].get("cmd") == case["cmd"]]
    if case.get("kind") == "size":
        a = run_item({"kind": "size", "lang": case["lang"], "levels": [int(case["generator"].rsplit("-", 1)[1])] if "deep" in case["generator"] or "long-chain" in case["generator"] else [], "widths": [int(case["generator"].rsplit("-", 1)[1]) * (10 if "terms" in case["generator"] else (100 if "functions" in case["generator"] else 1))] if "deep" not in case["generator"] and "long-chain" not in case["generator"] else []})
        return [f for f in a.failures if f["case"].get("generator") == case["generator"] and f["case"].get("cmd") == case["cmd"]]
    content = bytes.fromhex(case["content_hex"])
    print(f"faulty file {case['file']} ({case['desc']}), {len(content)} bytes: {content[:200]!r}")
    root = project(dict(SIB))
    (root / case["file"]).write_bytes(content)
    r = obs.cli_subprocess(["improper-logging", "--format", "json", "."], root)
    print(f"fresh process (improper-logging on the directory): exit={r['exit_code']} swallowed={r['swallowed'][:2]}")
    remove(root)
    _run_cases(acc, [(case["file"], content, case["desc"])], case.get("kind", "replay"), fault_position=case.get("fault_position", 0))
    return acc.failures
