"""C01 — nesting: exact depth, single flip point, +1 per wrap, cross-language agreement.

Explorer shape: E-input (DESIGN 3/C01).  Every control-structure forest up to the bound is
rendered into every language that has all of its kinds, linted by the real orchestrator at
every limit 1..depth+2, and compared with the reference model depth = 1 + longest path.
Edges: wrap (+1 on the implementation's own numbers), cross-language, carrier (config vs
--max-depth vs API), independence of functions in one file.
"""

from __future__ import annotations

import json
import re
from pathlib import Path

from mc.core import env, obs
from mc.core.enum import chunks, forests
from mc.core.isolate import project, remove
from mc.core.runner import Acc
from mc.render import nesting as R

PROPERTY = "C01"
LEVEL = "model_checking"
RULE = (
    "cases = (skeleton forest, language, container) rendered to source and linted at every limit "
    "1..depth+2; enumerated exhaustively by node count over the kind alphabet; non-trivial = model "
    "depth >= 2 (a violation is predicted at some limit); distinct by (forest, language, container)"
)
ASSUMPTIONS = [
    "reference depth = 1 + number of control structures on the longest root-to-leaf path",
    "nested function definitions, TS else-if chains and `else: if` shapes are outside the alphabet",
    "depth is read back from the violation message `... nesting depth (D)`",
]
BOUND = {
    "quick": "all forests n<=3 over 9 neutral kinds; n=4 over {IF,FOR,TRY_B,IFELSE_E}; per-language extras in all forests n<=2; all containers x forests n<=2; limits 1..depth+2",
    "thorough": "all forests n<=4 over 9 neutral kinds; n=5 over {IF,FOR,TRY_B}; extras in all forests n<=3; all containers x forests n<=2; limits 1..depth+2",
}
MIN_NONTRIVIAL = {"quick": 5000, "thorough": 50000}
BLOCK = 12
MSG = re.compile(r"Function '([^']+)' has excessive nesting depth \((\d+)\)")
BASIC = {"IF", "IFELSE_T", "IFELSE_E", "FOR", "WHILE", "TRY_B", "TRY_H", "WITH"}
LANGS = ["py", "ts", "js", "rs"]


# ----------------------------------------------------------------------------- items


def items(tier: str, seed: int):
    out = [{"kind": "nested-fn", "lang": lang} for lang in ("py", "ts", "js")]
    neutral = R.NEUTRAL
    if tier == "quick":
        plan = [(n, neutral) for n in (0, 1, 2, 3)] + [(4, ["IF", "FOR", "TRY_B", "IFELSE_E"])]
        extra_n = 2
    else:
        plan = [(n, neutral) for n in (0, 1, 2, 3, 4)] + [(5, ["IF", "FOR", "TRY_B"])]
        extra_n = 3
    rot = seed % 3
    for n, kinds in plan:
        for bi, block in enumerate(chunks(forests(n, kinds), BLOCK)):
            out.append({"kind": "neutral", "forests": block, "rot": rot + bi})
    for lang in LANGS:
        alpha = [k for k in neutral if k in R.TABLE[lang]] + R.EXTRAS[lang]
        ex = set(R.EXTRAS[lang])
        sel = (
            f
            for n in range(1, extra_n + 1)
            for f in forests(n, alpha)
            if R.kinds_of(f) & ex
        )
        for bi, block in enumerate(chunks(sel, BLOCK)):
            out.append({"kind": "extras", "lang": lang, "forests": block, "rot": rot + bi})
    small = [f for n in (1, 2) for f in forests(n, [k for k in neutral if k != "WITH"])]
    for lang in LANGS:
        fs = [f for f in small if R.available(f, lang)]
        for cont in R.CONTAINERS[lang]:
            for block in chunks(fs, BLOCK):
                out.append({"kind": "container", "lang": lang, "container": cont, "forests": block})
    one = [f for n in (0, 1) for f in forests(n, neutral)]
    out.append({"kind": "carrier", "forests": one})
    out.append({"kind": "subprocess", "forests": one})
    return out


# ----------------------------------------------------------------------------- observation


def _observe_api(root: Path, path: Path, lmax: int, orch=None):
    """reported[L] = {name: D} for L in 1..lmax using the real orchestrator."""
    from src.orchestrator.core import Orchestrator  # noqa: PLC0415

    rep = {}
    swallowed = []
    with obs.swallow_tap() as tap:
        env.reset_caches()
        o = orch or Orchestrator(project_root=root, config={"nesting": {"max_nesting_depth": 4}})
        for L in range(1, lmax + 1):
            # same mutation the CLI performs for --max-depth
            o.config["nesting"]["max_nesting_depth"] = L
            vs = [v for v in o.lint_file(path) if v.rule_id.startswith("nesting")]
            cur = {}
            for v in vs:
                m = MSG.search(v.message)
                key = m.group(1) if m else f"?{v.message}"
                cur.setdefault(key, []).append((int(m.group(2)) if m else None, v.line))
            rep[L] = cur
        swallowed = list(tap.records)
    return rep, swallowed


def _dobs(name: str, rep: dict, lmax: int):
    """(D_obs or None if never reported, list of inconsistencies)."""
    seen = {}
    bad = []
    for L in range(1, lmax + 1):
        got = rep[L].get(name, [])
        if len(got) > 1:
            bad.append(f"reported {len(got)} times at limit {L}")
        if got:
            seen[L] = got[0][0]
    ds = set(seen.values())
    if not seen:
        return None, bad
    if len(ds) != 1:
        bad.append(f"message depth varies with the limit: {sorted(seen.items())}")
        return max(d for d in ds if d is not None), bad
    d = ds.pop()
    exp_ls = {L for L in range(1, lmax + 1) if L < d}
    if set(seen) != exp_ls:
        bad.append(f"stated depth {d} but reported exactly at limits {sorted(seen)} (lmax {lmax})")
    return d, bad


def _specials(forest) -> list:
    """Non-basic kinds anywhere in the forest, with multiplicity."""
    out = []
    for k, sub in forest:
        if k not in BASIC:
            out.append(k)
        out.extend(_specials(sub))
    return sorted(out)


def _case(lang, forest, container, text=None):
    c = {"lang": lang, "forest": forest, "container": container}
    if text is not None:
        c["text"] = text
    return c


CAL = (("IF", (("IF", (("IF", ()),)),)),)  # calibration skeleton: model depth 4
_ORCH = {}


def _orch():
    """One real Orchestrator per worker process (rule discovery is the dominant cost)."""
    from src.orchestrator.core import Orchestrator  # noqa: PLC0415

    key = env.scratch_base()
    if key not in _ORCH:
        env.reset_caches()
        _ORCH.clear()
        _ORCH[key] = Orchestrator(project_root=key, config={"nesting": {"max_nesting_depth": 4}})
    return _ORCH[key]


def _check_functions(acc: Acc, lang: str, funcs, item_kind: str):
    """Render funcs [(name, forest, container)] into one file of `lang`, observe, check.

    Returns ({name: D_obs or None}, offset, {name: 'ok'|'lost'}).  The language's base offset is
    measured on a calibration function of the same file (base claim), every other function is
    compared with model + offset (step claims), so one root cause yields one signature.
    """
    base_c = R.CONTAINERS[lang][0]
    used = [base_c] + sorted({c for _n, _f, c in funcs} - {base_c})
    # python forces async containers for async kinds; calibrate what is actually rendered
    funcs = [(f"cal_{c}", CAL, c) for c in used] + list(funcs)
    text, headers = R.render_file(funcs, lang)
    root = project({f"m{R.EXT[lang]}": text}, marker=False)
    path = root / f"m{R.EXT[lang]}"
    lmax = max(R.depth(f) for _n, f, _c in funcs) + 3
    rep, swallowed = _observe_api(root, path, lmax, _orch())
    remove(root)
    result, status = {}, {}
    if swallowed:
        acc.fail({"check": "swallowed", "lang": lang}, {"lang": lang, "text": text}, "no internal rule failure", swallowed[:3])
    known = {n for n, _f, _c in funcs}
    for L in rep:
        for nm in rep[L]:
            if nm not in known:
                acc.fail({"check": "phantom", "lang": lang}, {"lang": lang, "text": text}, "only rendered functions are reported", nm)
    dcal, _bad = _dobs(f"cal_{base_c}", rep, lmax)
    if dcal is None:
        acc.fail({"check": "base", "lang": lang, "mode": "never-reported"}, _case(lang, CAL, base_c), {"depth": 4}, {"depth": None})
        off = 0
    else:
        off = dcal - R.depth(CAL)
        if off != 0:
            acc.fail({"check": "base", "lang": lang, "delta": off}, _case(lang, CAL, base_c), {"depth": R.depth(CAL)}, {"depth": dcal}, "plain if/if/if chain: the language's base offset")
    lost = {}
    for c in used[1:]:
        dc, _b = _dobs(f"cal_{c}", rep, lmax)
        if dc is None:
            lost[c] = True
            acc.fail({"check": "container", "lang": lang, "container": c, "mode": "never-reported"}, _case(lang, CAL, c), {"depth": 4 + off}, {"depth": None}, "functions in this container are never found")
        elif dcal is not None and dc != dcal:
            acc.fail({"check": "container", "lang": lang, "container": c, "delta": dc - dcal}, _case(lang, CAL, c), {"depth": dcal}, {"depth": dc})
    for name, forest, container in funcs:
        acc.case()
        acc.valid()
        model = R.depth(forest)
        d, bad = _dobs(name, rep, lmax)
        result[name] = d
        status[name] = "lost" if lost.get(container) else "ok"
        acc.outcome((lang, d))
        if model >= 2:
            acc.nt((lang, forest, container))
        case = _case(lang, forest, container)
        for b in bad:
            acc.fail({"check": "flip", "lang": lang, "container": container}, case, "reported iff limit < stated depth, exactly once", b)
        for L in rep:
            hit = [ln for _dd, ln in rep[L].get(name, []) if ln != headers[name]]
            if hit:
                acc.fail({"check": "line", "lang": lang, "container": container}, case, headers[name], hit[0], "violation line is not the function header line")
                break
        if status[name] == "lost":
            continue
        want = model + off
        sp = _specials(forest)
        if len(sp) > 1:
            acc.stat("absolute_skipped_multi_special")
            continue
        if d is None and want <= 1:
            continue
        eff = d if d is not None else 1  # unreported at limit 1 means depth <= 1
        if eff != want:
            acc.fail({"check": "absolute", "lang": lang, "delta": eff - want, "special": sp}, case, {"depth": model, "calibrated": want}, {"depth": d}, f"{name} in {item_kind}; language base offset {off}")
    return result, off, status


# ----------------------------------------------------------------------------- item runners


def _with_unwraps(block):
    """Forests of the block plus the wrap-parents needed for the wrap edges (deduplicated)."""
    allf = list(block)
    seen = set(block)
    edges = []
    for f in block:
        for k, nf in R.unwraps(f):
            if nf not in seen:
                seen.add(nf)
                allf.append(nf)
            edges.append((f, k, nf))
    return allf, edges


def _run_block(acc: Acc, block, langs, rot: int, kind: str, container: str | None = None):
    allf, edges = _with_unwraps(block)
    names = {f: f"f{i}" for i, f in enumerate(allf)}
    per_lang, offs, stat = {}, {}, {}
    for lang in langs:
        fl = [f for f in allf if R.available(f, lang)]
        if not fl:
            continue
        conts = R.CONTAINERS[lang]
        funcs = []
        for i, f in enumerate(fl):
            c = container or conts[(rot + i) % len(conts)]
            funcs.append((names[f], f, c))
        res, off, st = _check_functions(acc, lang, funcs, kind)
        per_lang[lang] = {f: res[names[f]] for f in fl}
        stat[lang] = {f: st[names[f]] for f in fl}
        offs[lang] = off
        cof = {f: c for (_n, f, c) in funcs}
        # wrap edges on the implementation's own numbers (no model involved)
        for f, k, nf in edges:
            if f not in per_lang[lang] or nf not in per_lang[lang]:
                continue
            if stat[lang][f] == "lost" or stat[lang][nf] == "lost":
                continue
            if len(_specials(nf)) > 0:
                # a special kind off the wrapped path may (through its own known deviation) hide
                # the wrapped leaf; the edge is evaluated only where every other path is basic
                acc.stat("wrap_edges_skipped_special_context")
                continue
            a, b = per_lang[lang][f], per_lang[lang][nf]
            if a is None:
                # neither side observable (both below the smallest limit) unless b is reported
                if b is None:
                    acc.stat("wrap_edges_unobservable")
                    continue
            acc.edge()
            if a is not None and b is not None:
                ok, delta = (a - b == 1), a - b
            elif a is not None:  # b unreported: b <= 1, so a must be 2
                ok, delta = (a == 2), a - 1
            else:  # wrapped unreported but unwrapped reported
                ok, delta = False, 1 - b
            if not ok:
                acc.fail(
                    {"check": "wrap", "lang": lang, "kind": k, "delta": delta},
                    {"lang": lang, "forest": f, "unwrapped": nf, "container": cof[f]},
                    "+1",
                    {"wrapped": a, "unwrapped": b},
                )
    # cross-language edges against ts; the base offsets are compared once, the rest calibrated
    if "ts" in per_lang:
        for lang in per_lang:
            if lang == "ts":
                continue
            if offs[lang] != offs["ts"]:
                acc.fail(
                    {"check": "xlang-base", "pair": [lang, "ts"], "delta": offs[lang] - offs["ts"]},
                    {"forest": CAL, "langs": [lang, "ts"]},
                    "same depth in both languages",
                    {lang: offs[lang] + 4, "ts": offs["ts"] + 4},
                )
            for f, d in per_lang[lang].items():
                if f not in per_lang["ts"] or stat[lang][f] == "lost" or stat["ts"][f] == "lost":
                    continue
                sp = _specials(f)
                if len(sp) > 1:
                    continue
                t = per_lang["ts"][f]
                if d is None or t is None:
                    continue
                acc.edge()
                if d - offs[lang] != t - offs["ts"]:
                    acc.fail(
                        {"check": "xlang", "pair": [lang, "ts"], "delta": (d - offs[lang]) - (t - offs["ts"]), "special": sp},
                        {"forest": f, "langs": [lang, "ts"]},
                        {"ts": t},
                        {lang: d},
                        f"offsets {offs}",
                    )
    if acc.samples == [] and block:
        f = block[-1]
        acc.sample({"forest": f, "model_depth": R.depth(f), "observed": {l: per_lang[l].get(f) for l in per_lang}})
    return per_lang


def _cli_reported(argv, cwd):
    r = obs.cli_json(argv, cwd)
    if r["violations"] is None:
        return None, r
    out = {}
    for v in r["violations"]:
        m = MSG.search(v["message"])
        out[m.group(1) if m else v["message"]] = int(m.group(2)) if m else None
    return out, r


def _run_carrier(acc: Acc, fs, sub: bool):
    """config file vs --max-depth vs API, for every limit (and the same through a real process)."""
    for lang in LANGS:
        fl = [f for f in fs if R.available(f, lang)]
        funcs = [(f"f{i}", f, R.CONTAINERS[lang][0]) for i, f in enumerate(fl)]
        text, _h = R.render_file(funcs, lang)
        fname = f"m{R.EXT[lang]}"
        for L in (1, 2, 3, 4):
            root = project({fname: text, "cfg.yaml": f"nesting:\n  max_nesting_depth: {L}\n"})
            env.reset_caches()
            api = obs.api_lint_file(root, root / fname, {"nesting": {"max_nesting_depth": L}})
            want = {}
            for v in api["violations"]:
                if v["rule_id"].startswith("nesting"):
                    m = MSG.search(v["message"])
                    want[m.group(1)] = int(m.group(2))
            runs = {
                "--max-depth": ["nesting", "--max-depth", str(L), fname],
                "--config": ["nesting", "--config", "cfg.yaml", fname],
                "both-conflict": ["nesting", "--config", "cfg.yaml", "--max-depth", str(L), fname],
            }
            if sub:
                runs = {"--max-depth": runs["--max-depth"], "--config": runs["--config"]}
            for carrier, argv in runs.items():
                acc.case()
                acc.edge()
                if sub:
                    r = obs.cli_json(argv, root, sub=True)
                    got = None
                    if r["violations"] is not None:
                        got = {}
                        for v in r["violations"]:
                            m = MSG.search(v["message"])
                            got[m.group(1) if m else v["message"]] = int(m.group(2)) if m else None
                else:
                    got, r = _cli_reported(argv, root)
                exp_exit = 1 if want else 0
                acc.valid()
                if got != want or r["exit_code"] != exp_exit:
                    acc.fail(
                        {"check": "carrier", "lang": lang, "carrier": carrier, "front": "subprocess" if sub else "inproc"},
                        {"lang": lang, "text": text, "limit": L, "argv": argv},
                        {"reported": want, "exit": exp_exit},
                        {"reported": got, "exit": r["exit_code"], "stderr": r["stderr"][-300:]},
                    )
                if want:
                    acc.nt((lang, L, carrier, sub))
            remove(root)


NESTED_FN = {
    # ways of putting a function inside a function body; {B} = the nested function's body
    "ts": {
        "nested-declaration": ["function inner() {", "{B}", "}", "inner();"],
        "callback-argument": ["xs.forEach((x) => {", "{B}", "});"],
        "const-arrow": ["const g = () => {", "{B}", "};", "g();"],
        "returned-function": ["return function () {", "{B}", "};"],
        "method-chain-callback": ["return xs.filter((x) => x).map((x) => {", "{B}", "});"],
    },
    "py": {
        "nested-def": ["def inner():", "{B}", "inner()"],
        "nested-async-def": ["async def inner():", "{B}", "return inner"],
    },
}
NESTED_FN["js"] = NESTED_FN["ts"]


def _nested_functions(acc: Acc, lang: str):
    """Nested functions are outside the depth MODEL (the documentation does not say whether a
    nested function is a level), but whatever the tool does it must do uniformly: with k control
    structures inside the nested function, the enclosing function's reported depth grows by the
    same step s in {0, 1} per structure for EVERY way of nesting a function, and by the same
    base.  (step 1 = contents count towards the enclosing function, step 0 = they never do.)"""
    ext = R.EXT[lang]
    opener, closer = (("def outer(a, xs):", []) if lang == "py" else ("function outer(a, xs) {", ["}"]))
    unit = "    "
    profile = {}
    for wname, tpl in NESTED_FN[lang].items():
        depths = []
        for k in (0, 1, 2, 3):
            body = R.render_forest(tuple(_chain(k)), lang, 2)
            lines = [opener]
            for ln in tpl:
                if ln == "{B}":
                    lines += body
                else:
                    lines.append(unit + ln)
            lines += closer
            text = "\n".join(lines) + "\n"
            root = project({f"mod{ext}": text})
            rep, _sw = _observe_api(root, root / f"mod{ext}", 1)
            remove(root)
            got = rep[1].get("outer", [])
            depths.append(got[0][0] if got else 1)  # not reported at limit 1: depth 1
            acc.case()
            acc.valid()
            acc.nt((lang, "nested-fn", wname, k))
        profile[wname] = depths
        steps = {b - a for a, b in zip(depths, depths[1:]) if a is not None and b is not None}
        acc.edge(3)
        if len(steps) != 1 or not steps <= {0, 1}:
            acc.fail({"check": "nested-function-step", "lang": lang, "wrapper": wname}, {"lang": lang, "nested_fn": wname, "depths_for_k_0_to_3": depths}, "the same step (0 or 1) per control structure inside the nested function", depths)
    ref = next(iter(profile.values()))
    for wname, depths in profile.items():
        acc.edge()
        if depths != ref:
            acc.fail({"check": "nested-function-uniformity", "lang": lang, "wrapper": wname}, {"lang": lang, "nested_fn": wname, "profile": profile}, {list(profile)[0]: ref}, {wname: depths}, "two ways of nesting a function inside a function body are counted differently")
    acc.sample({"lang": lang, "nested_function_profile": profile})


def _chain(k):
    f = ()
    for _ in range(k):
        f = (("IF", f),)
    return f


def run_item(item) -> Acc:
    acc = Acc()
    k = item["kind"]
    if k == "nested-fn":
        _nested_functions(acc, item["lang"])
        return acc
    if k == "neutral":
        _run_block(acc, item["forests"], LANGS, item["rot"], k)
    elif k == "extras":
        _run_block(acc, item["forests"], [item["lang"]], item["rot"], k)
    elif k == "container":
        lang, cont = item["lang"], item["container"]
        per = _run_block(acc, item["forests"], [lang], 0, k, container=cont)
        # independence: each function alone in its own file gives the same depth
        for f in item["forests"]:
            res, _o, _s = _check_functions(acc, lang, [("solo", f, cont)], "solo")
            acc.edge()
            if lang in per and per[lang].get(f) != res["solo"]:
                acc.fail(
                    {"check": "independence", "lang": lang, "container": cont},
                    _case(lang, f, cont),
                    {"alone": res["solo"]},
                    {"in_file_with_others": per[lang].get(f)},
                )
    elif k == "carrier":
        _run_carrier(acc, item["forests"], sub=False)
    elif k == "subprocess":
        _run_carrier(acc, item["forests"], sub=True)
    return acc


# ----------------------------------------------------------------------------- replay


def _tup(f):
    return tuple((k, _tup(s)) for k, s in f)


def replay_case(case) -> list[dict]:
    if case.get("nested_fn"):
        acc = Acc()
        _nested_functions(acc, case["lang"])
        for f in acc.failures:
            print(f["signature"], f["observed"])
        return [f for f in acc.failures if f["case"].get("nested_fn") == case["nested_fn"]]
    acc = Acc()
    if "argv" in case:
        root = project({f"m{R.EXT[case['lang']]}": case["text"], "cfg.yaml": f"nesting:\n  max_nesting_depth: {case['limit']}\n"})
        r = obs.cli_subprocess(case["argv"] + ["--format", "json"], root)
        print(f"$ thailint {' '.join(case['argv'])} --format json   (cwd=project)\nexit={r['exit_code']}\n{r['stdout']}{r['stderr'][-500:]}")
        remove(root)
        _run_carrier(acc, [], sub=False)
        return []
    if "langs" in case:
        f = _tup(case["forest"])
        _run_block(acc, [f], case["langs"], 0, "replay")
    elif "unwrapped" in case:
        f = _tup(case["forest"])
        _run_block(acc, [f], [case["lang"]], 0, "replay", container=case.get("container"))
    elif "forest" in case:
        f = _tup(case["forest"])
        text, _ = R.render_file([("f0", f, case["container"])], case["lang"])
        print(f"--- rendered {case['lang']} source (model depth {R.depth(f)}) ---\n{text}")
        _check_functions(acc, case["lang"], [("f0", f, case["container"])], "replay")
    else:
        print(json.dumps(case)[:500])
    return acc.failures
