"""C05 — configuration is honoured identically in every format and for every linter.

E-input: for every linter section of the documentation-derived catalog x key spelling x carrier x
option values, the real CLI is run on the linter's documented violating examples.  Oracles:
`enabled: false` silences the linter; integer thresholds have an effect and are monotone in the
documented direction; all (spelling x carrier) variants of one logical configuration give the
same output; precedence CLI option > .thailint.yaml > .thailint.json > pyproject.toml; top-level
ignore list honoured in every carrier; invalid value / unparsable file => exit 2.
"""

from __future__ import annotations

import copy
import json

from mc.catalog import load
from mc.core import obs
from mc.core.isolate import project, remove, yaml_dump
from mc.core.runner import Acc

PROPERTY = "C05"
LEVEL = "model_checking"
RULE = (
    "case = (linter, option, value, section spelling, carrier) run through the real CLI on the "
    "linter's documented violating examples; the matrix is taken in full; non-trivial = the "
    "baseline (default configuration) run reports at least one violation of that linter, so that "
    "the option has something to act on; distinct by the whole tuple"
)
ASSUMPTIONS = [
    "section and option names, defaults and directions are transcribed from docs/*-linter.md, docs/configuration.md and the shipped template (mc/catalog/linters/*.json)",
    "the violating examples are the catalog triggers (documented examples); a linter whose trigger does not fire on the current tree is reported by C19 and skipped here",
    "group-level `thailint --config F <cmd>` is not treated as a carrier of linter configuration (the documentation only shows the command-level option)",
]
BOUND = {
    "quick": "19 linters x {hyphen, underscore} x 5 carriers x {enabled:false, every integer threshold swept over 10 values, top-level ignore}; precedence for all ordered carrier pairs; CLI threshold options vs config and per-language overrides; invalid values and unparsable files per carrier",
    "thorough": "same matrix (finite, taken in full) plus every boolean switch on/off across all carriers",
}
MIN_NONTRIVIAL = {"quick": 800, "thorough": 1200}
CARRIERS = ["yaml", "json", "pyproject", "config-yaml", "config-json", "group-config-yaml"]
SWEEP = [1, 2, 3, 4, 5, 6, 8, 13, 50, 1000]
# thresholds whose documented violating example is, by the documentation's own numbers, sensitive
# to the option somewhere in the sweep (so "no effect at all" contradicts the documentation)
SENSITIVE = {
    ("nesting", "max_nesting_depth"), ("srp", "max_methods"), ("srp", "max_loc"),
    ("dry", "min_duplicate_lines"), ("dry", "min_occurrences"), ("dry", "min_duplicate_tokens"),
    ("pipeline", "min_continues"), ("stringly-typed", "min_occurrences"),
    ("stateless-class", "min_methods"),
    ("magic-numbers", "max_small_integer"),
}
# supplementary documented constructs that make an option observable on the trigger project
SUPPLEMENT = {
    "magic-numbers": {"py/small_range.py": "def spin():\n    for i in range(7):\n        step(i)\n"},
}


def to_toml(cfg: dict) -> str:
    lines: list[str] = []

    def val(v):
        if isinstance(v, bool):
            return "true" if v else "false"
        if isinstance(v, (int, float)):
            return repr(v)
        if isinstance(v, str):
            return json.dumps(v)
        if isinstance(v, list):
            return "[" + ", ".join(val(x) for x in v) + "]"
        if isinstance(v, dict):
            return "{" + ", ".join(f"{json.dumps(k)} = {val(x)}" for k, x in v.items()) + "}"
        raise TypeError(v)

    def table(prefix, d):
        scalars = {k: v for k, v in d.items() if not isinstance(v, dict)}
        tables = {k: v for k, v in d.items() if isinstance(v, dict)}
        lines.append(f"[{prefix}]")
        for k, v in scalars.items():
            lines.append(f"{json.dumps(k)} = {val(v)}")
        lines.append("")
        for k, v in tables.items():
            table(f"{prefix}.{json.dumps(k)}", v)

    table("tool.thailint", cfg)
    return "\n".join(lines) + "\n"


def _spell(cfg: dict, section: str, spelling: str) -> dict:
    out = {}
    for k, v in cfg.items():
        if k == section:
            k = k.replace("-", "_") if spelling == "underscore" else k.replace("_", "-")
        out[k] = v
    return out


def _place(files: dict, cfg: dict, carrier: str):
    """-> (files incl. config carrier, extra argv)"""
    f = dict(files)
    if carrier == "yaml":
        f[".thailint.yaml"] = yaml_dump(cfg)
        return f, []
    if carrier == "json":
        f[".thailint.json"] = json.dumps(cfg, indent=1)
        return f, []
    if carrier == "pyproject":
        f["pyproject.toml"] = '[project]\nname = "demo"\nversion = "0"\n\n' + to_toml(cfg)
        return f, []
    if carrier == "config-yaml":
        f["custom-config.yaml"] = yaml_dump(cfg)
        return f, ["--config", "custom-config.yaml"]
    if carrier == "group-config-yaml":
        # the documented global form: thailint --config FILE <command> ...
        f["custom-config.yaml"] = yaml_dump(cfg)
        return f, ["@@GROUP", "--config", "custom-config.yaml"]
    if carrier == "config-json":
        f["custom-config.json"] = json.dumps(cfg, indent=1)
        return f, ["--config", "custom-config.json"]
    raise ValueError(carrier)


def _linter_setup(name: str):
    """(command, prefix, files, base config, documented section) or None."""
    d = load.linters()[name]
    cmd = load.primary_command(name)
    if not cmd:
        return None
    files, cfg = {}, {}
    for lang in d.get("languages") or {}:
        fs = load.trigger_files(name, lang)
        if not fs or lang not in load.LANG_EXT:
            continue
        for rel, code in fs.items():
            files[f"{lang[:2]}/{rel}"] = code
        cfg = load.deep_merge(cfg, load.trigger_config(name, lang))
    if not files:
        return None
    files.update(SUPPLEMENT.get(name, {}))
    section = (d.get("config_sections") or [name])[0]
    return cmd, load.COMMAND_PREFIX[cmd][0], files, cfg, section


def _run(cmd, prefix, files, cfg, carrier, extra_argv=(), root_keep=None):
    fs, argv = _place(files, cfg, carrier) if cfg is not None else (dict(files), [])
    root = project(fs)
    if argv and argv[0] == "@@GROUP":
        r = obs.cli_json([*argv[1:], cmd, *extra_argv, "."], root)
    else:
        r = obs.cli_json([cmd, *argv, *extra_argv, "."], root)
    vs = None
    if r["violations"] is not None:
        vs = obs.norm([v for v in r["violations"] if v["rule_id"].startswith(prefix)], root, root)
    remove(root)
    return vs, r


def _section_cfg(base: dict, section: str, updates: dict) -> dict:
    cfg = copy.deepcopy(base)
    sec = dict(cfg.get(section) or {})
    for k, v in updates.items():
        if "." in k:
            a, b = k.split(".", 1)
            sub = dict(sec.get(a) or {})
            sub[b] = v
            sec[a] = sub
        else:
            sec[k] = v
    cfg[section] = sec
    return cfg


def items(tier: str, seed: int):
    out = []
    for name in load.linters():
        if _linter_setup(name) is None:
            continue
        out.append({"kind": "enabled", "linter": name})
        out.append({"kind": "thresholds", "linter": name})
        out.append({"kind": "ignore", "linter": name})
        if tier == "thorough":
            out.append({"kind": "switches", "linter": name})
    out.append({"kind": "precedence"})
    for name in ("nesting", "srp", "magic-numbers"):
        out.append({"kind": "mixed-languages", "linter": name})
    out.append({"kind": "cli-options"})
    out.append({"kind": "invalid"})
    return out


def run_item(item) -> Acc:
    acc = _run_item(item)
    for f in acc.failures:
        f["case"]["_item"] = item
    return acc


def _mixed_languages(item) -> Acc:
    """Per-language override blocks in a run over files of several languages: what is reported for
    a file must be what the same configuration reports for that file alone, in every order."""
    import itertools  # noqa: PLC0415

    acc = Acc()
    name = item["linter"]
    cmd, prefix, files, base, section = _linter_setup(name)
    langs = [lg for lg in ("python", "typescript", "javascript", "rust") if any(p.startswith(lg[:2] + "/") for p in files)]
    key, values = {
        "nesting": ("max_nesting_depth", [1, 2, 3, 9]),
        "srp": ("max_methods", [1, 2, 4, 30]),
        "magic-numbers": ("allowed_numbers", [[], [0, 1], [0, 1, 2, 3, 4, 5, 10, 100, 1000], list(range(0, 20000))]),
    }[name]
    paths = sorted(files)
    for rot in range(len(langs)):
        assign = {lg: values[(i + rot) % len(values)] for i, lg in enumerate(langs)}
        cfg = _section_cfg(base, section, {f"{lg}.{key}": v for lg, v in assign.items()})
        fs, argv = _place(files, cfg, "yaml")
        alone = {}
        for pth in paths:
            root = project(fs)
            r = obs.cli_json([cmd, *argv, pth], root)
            alone[pth] = None if r["violations"] is None else sorted(t for t in obs.norm([v for v in r["violations"] if v["rule_id"].startswith(prefix)], root, root) if t[1] == pth)
            remove(root)
            acc.case()
        orders = list(itertools.permutations(paths)) if len(paths) <= 4 else [tuple(paths[i:] + paths[:i]) for i in range(len(paths))] + [tuple(reversed(paths))]
        for order in [*orders, (".",)]:
            root = project(fs)
            r = obs.cli_json([cmd, *argv, *order], root)
            got = None if r["violations"] is None else obs.norm([v for v in r["violations"] if v["rule_id"].startswith(prefix)], root, root)
            remove(root)
            acc.case()
            acc.edge()
            acc.valid()
            if any(alone.values()):
                acc.nt((name, rot, order))
            for pth in paths:
                mine = None if got is None else sorted(t for t in got if t[1] == pth)
                if mine != alone[pth]:
                    acc.fail({"site": "per-language-override", "linter": name, "mode": "file-judged-differently-in-a-mixed-language-run"},
                             {"cmd": cmd, "files": files, "config": cfg, "carrier": "yaml", "order": list(order), "file": pth}, alone[pth] and alone[pth][:3], mine and mine[:3],
                             f"{pth}: alone vs as part of `{cmd} {' '.join(order)}`")
    return acc


def _run_item(item) -> Acc:
    acc = Acc()
    k = item["kind"]
    if k == "mixed-languages":
        return _mixed_languages(item)
    if k in ("enabled", "thresholds", "ignore", "switches"):
        name = item["linter"]
        cmd, prefix, files, base, section = _linter_setup(name)
        d = load.linters()[name]
        base_vs, r0 = _run(cmd, prefix, files, base or None, "yaml")
        if not base_vs:
            acc.stat("skipped_baseline_missing_see_C19")
            acc.sample({"linter": name, "skipped": "trigger does not fire under default configuration"})
            return acc
        if k == "enabled":
            bad, total, sample_case = [], 0, None
            for spelling in ("hyphen", "underscore"):
                if spelling == "underscore" and "-" not in section:
                    continue
                for carrier in CARRIERS:
                    cfg = _spell(_section_cfg(base, section, {"enabled": False}), section, spelling)
                    vs, r = _run(cmd, prefix, files, cfg, carrier)
                    acc.case()
                    acc.edge()
                    acc.valid()
                    total += 1
                    acc.nt((name, "enabled", spelling, carrier))
                    acc.outcome((name, spelling, carrier, None if vs is None else len(vs)))
                    case = {"linter": name, "cmd": cmd, "config": cfg, "carrier": carrier, "files": files}
                    if vs is None:
                        acc.fail({"linter": name, "option": "enabled", "mode": f"exit{r['exit_code']}", "carrier": carrier, "spelling": spelling}, case, "exit 0", r["stderr"][-300:])
                    elif vs:
                        bad.append((carrier, spelling, case, vs))
            if bad and len(bad) == total:
                acc.fail({"linter": name, "option": "enabled", "mode": "dead-in-every-carrier-and-spelling"}, bad[0][2], "no violation of the disabled linter", bad[0][3][:2], f"`{section}: enabled: false` has no effect in any carrier or spelling")
            else:
                for carrier, spelling, case, vs in bad:
                    acc.fail({"linter": name, "option": "enabled", "mode": "still-reports", "carrier": carrier, "spelling": spelling}, case, "no violation of the disabled linter", vs[:2], f"`{section}: enabled: false` has no effect")
            acc.sample({"linter": name, "section": section, "option": "enabled: false", "carriers": CARRIERS})
        elif k == "thresholds":
            for o in d.get("options", []):
                if o.get("type") not in ("integer", "int", "integer|null") or not o.get("direction"):
                    continue
                key = o["key"]
                results = {}
                for v in SWEEP:
                    cfg = _section_cfg(base, section, {key: v})
                    vs, r = _run(cmd, prefix, files, cfg, "yaml")
                    acc.case()
                    acc.valid()
                    acc.nt((name, key, v))
                    results[v] = None if vs is None else {(t[0], t[1], t[2], t[4]) for t in vs}
                case = {"linter": name, "cmd": cmd, "option": key, "section": section, "files": files, "base_config": base}
                ok_vals = [v for v in SWEEP if results[v] is not None]
                if len(ok_vals) < len(SWEEP):
                    acc.stat("sweep_values_rejected_by_the_tool_not_judged", len(SWEEP) - len(ok_vals))
                if (name, key) in SENSITIVE and len({frozenset(results[v]) for v in ok_vals}) <= 1:
                    acc.fail({"linter": name, "option": key, "mode": "no-effect"}, case, "the documented threshold changes the findings somewhere in 1..1000", {v: len(results[v]) for v in ok_vals}, f"`{section}.{key}` swept over {SWEEP}")
                import collections  # noqa: PLC0415

                def proj(res):
                    if d.get("cross_file"):
                        # block windows move with the threshold: identity = per-file count
                        c = collections.Counter(t[1] for t in res)
                        return {(f, i) for f, n in c.items() for i in range(n)}
                    return {(t[0], t[1], t[2]) for t in res}

                for a, b in zip(ok_vals, ok_vals[1:]):
                    acc.edge()
                    lo, hi = proj(results[a]), proj(results[b])
                    if o["direction"] == "higher-permissive" and not hi <= lo:
                        acc.fail({"linter": name, "option": key, "mode": "not-monotone"}, {**case, "values": [a, b]}, "raising the threshold never adds a violation", sorted(hi - lo)[:3])
                    if o["direction"] == "lower-permissive" and not lo <= hi:
                        acc.fail({"linter": name, "option": key, "mode": "not-monotone"}, {**case, "values": [a, b]}, "lowering the threshold never adds a violation", sorted(lo - hi)[:3])
                # equivalence across spelling x carrier at the value that changes most
                pick = min(ok_vals, key=lambda v: (len(results[v]), v)) if ok_vals else None
                if pick is not None:
                    ref = results[pick]
                    for spelling in ("hyphen", "underscore"):
                        if spelling == "underscore" and "-" not in section:
                            continue
                        for carrier in CARRIERS:
                            cfg = _spell(_section_cfg(base, section, {key: pick}), section, spelling)
                            vs, r = _run(cmd, prefix, files, cfg, carrier)
                            acc.case()
                            acc.edge()
                            got = None if vs is None else {(t[0], t[1], t[2], t[4]) for t in vs}
                            if got != ref:
                                acc.fail({"linter": name, "option": key, "mode": "carrier-differs", "carrier": carrier, "spelling": spelling}, {**case, "value": pick, "carrier": carrier, "config": cfg}, sorted(ref)[:3], None if got is None else sorted(got)[:3], f"same logical configuration `{key}: {pick}` gives a different result")
            acc.sample({"linter": name, "thresholds": [o["key"] for o in d.get("options", []) if o.get("direction")], "sweep": SWEEP})
        elif k == "ignore":
            # top-level ignore list matching every trigger file / matching nothing
            failing = []
            for carrier in CARRIERS:
                for pats, expect_empty in ((["py/", "ty/", "ja/", "ru/"], True), (["nomatch_dir/"], False)):
                    cfg = load.deep_merge(base, {"ignore": pats})
                    vs, r = _run(cmd, prefix, files, cfg, carrier)
                    acc.case()
                    acc.edge()
                    acc.valid()
                    acc.nt((name, "ignore", carrier, expect_empty))
                    case = {"linter": name, "cmd": cmd, "config": cfg, "carrier": carrier, "files": files}
                    if vs is None:
                        acc.fail({"linter": "any", "option": "top-level-ignore", "mode": f"exit{r['exit_code']}", "carrier": carrier}, case, "exit 0/1", r["stderr"][-300:])
                    elif expect_empty and vs:
                        failing.append((carrier, case, vs))
                    elif not expect_empty and sorted(vs) != sorted(base_vs):
                        acc.fail({"linter": "any", "option": "top-level-ignore", "mode": "non-matching-pattern-changes-result", "carrier": carrier}, case, base_vs[:2], vs[:2])
            if failing:
                acc.fail({"option": "top-level-ignore", "mode": "not-honoured", "carriers": sorted(c for c, _x, _y in failing)}, failing[0][1], "files matching the top-level ignore list yield no violation", failing[0][2][:2], "the top-level `ignore:` list is not honoured in these carriers")
        elif k == "switches":
            for o in d.get("options", []):
                if o.get("type") not in ("boolean", "bool") or o["key"] == "enabled":
                    continue
                for val in (True, False):
                    ref = None
                    for spelling in ("hyphen", "underscore"):
                        if spelling == "underscore" and "-" not in section:
                            continue
                        for carrier in CARRIERS:
                            cfg = _spell(_section_cfg(base, section, {o["key"]: val}), section, spelling)
                            vs, r = _run(cmd, prefix, files, cfg, carrier)
                            acc.case()
                            acc.edge()
                            acc.nt((name, o["key"], val, spelling, carrier))
                            if ref is None:
                                ref = vs
                            elif vs != ref:
                                acc.fail({"linter": name, "option": o["key"], "mode": "carrier-differs", "carrier": carrier, "spelling": spelling}, {"linter": name, "cmd": cmd, "config": cfg, "carrier": carrier, "files": files}, (ref or [])[:2], (vs or [])[:2])
    elif k == "precedence":
        # nesting threshold: carrier A says 1 (strict: violation), carrier B says 1000 (lenient)
        cmd, prefix, files, base, section = _linter_setup("nesting")
        order = ["yaml", "json", "pyproject"]
        for i, hi in enumerate(order):
            for lo in order[i + 1 :]:
                for hi_val, lo_val in ((1, 1000), (1000, 1)):
                    fs = dict(files)
                    f1, _ = _place({}, {"nesting": {"max_nesting_depth": hi_val}}, hi)
                    f2, _ = _place({}, {"nesting": {"max_nesting_depth": lo_val}}, lo)
                    fs.update(f1)
                    fs.update(f2)
                    root = project(fs)
                    r = obs.cli_json([cmd, "."], root)
                    n = len([v for v in (r["violations"] or []) if v["rule_id"].startswith(prefix)])
                    remove(root)
                    acc.case()
                    acc.edge()
                    acc.valid()
                    acc.nt(("prec", hi, lo, hi_val))
                    want_some = hi_val == 1
                    if (n > 0) != want_some:
                        acc.fail({"option": "precedence", "higher": hi, "lower": lo, "mode": "lower-wins"}, {"files": fs, "cmd": cmd}, f"{hi} (value {hi_val}) takes precedence over {lo} (value {lo_val})", {"violations": n})
    elif k == "cli-options":
        flags = {"nesting": ("--max-depth", "max_nesting_depth"), "srp": ("--max-methods", "max_methods"), "dry": ("--min-lines", "min_duplicate_lines"), "collection-pipeline": ("--min-continues", "min_continues")}
        for name, (flag, key) in flags.items():
            if name not in load.linters():
                name = "pipeline" if name == "collection-pipeline" else name
            st = _linter_setup(name)
            if st is None:
                continue
            cmd, prefix, files, base, section = st
            for val in (1, 2, 3, 1000):
                ref, _r = _run(cmd, prefix, files, _section_cfg(base, section, {key: val}), "yaml")
                for conflict in (1, 1000):
                    variants = {"config": _section_cfg(base, section, {key: conflict})}
                    for lang in ("python", "typescript", "javascript", "rust"):
                        variants[f"override-{lang}"] = _section_cfg(base, section, {key: conflict, f"{lang}.{key}": conflict})
                    for vname, cfg in variants.items():
                        for carrier in ("yaml", "config-yaml", "pyproject"):
                            vs, r = _run(cmd, prefix, files, cfg, carrier, extra_argv=[flag, str(val)])
                            acc.case()
                            acc.edge()
                            acc.valid()
                            acc.nt((name, flag, val, conflict, vname, carrier))
                            if vs != ref:
                                vclass = "per-language-override" if vname.startswith("override") else "config"
                                acc.fail({"linter": name, "option": flag, "mode": "cli-option-does-not-win", "against": vclass}, {"linter": name, "cmd": cmd, "argv": [flag, str(val)], "config": cfg, "carrier": carrier, "files": files}, (ref or [])[:3], (vs or [])[:3], f"{flag} {val} against {vname} value {conflict}")
    elif k == "invalid":
        cmd, prefix, files, base, section = _linter_setup("nesting")
        for carrier in CARRIERS:
            for bad in (0, -1):
                cfg = {"nesting": {"max_nesting_depth": bad}}
                vs, r = _run(cmd, prefix, files, cfg, carrier)
                acc.case()
                acc.edge()
                acc.valid()
                acc.nt(("invalid", carrier, bad))
                if r["exit_code"] != 2:
                    acc.fail({"option": "invalid-value", "carrier": carrier, "mode": f"exit{r['exit_code']}"}, {"config": cfg, "carrier": carrier, "cmd": cmd, "files": files}, {"exit": 2}, {"exit": r["exit_code"]}, "documented-invalid value (non-positive limit) must end the run with exit 2")
        # the same values inside a per-language block
        for lname, key in (("nesting", "max_nesting_depth"), ("srp", "max_methods"), ("srp", "max_loc")):
            st = _linter_setup(lname)
            if st is None:
                continue
            cmd2, prefix2, files2, base2, sec2 = st
            for lang in ("python", "typescript"):
                for bad in (0, -1):
                    cfg = _section_cfg(base2, sec2, {f"{lang}.{key}": bad})
                    vs, r = _run(cmd2, prefix2, files2, cfg, "yaml")
                    acc.case()
                    acc.edge()
                    acc.valid()
                    acc.nt(("invalid-lang-block", lname, key, lang, bad))
                    if r["exit_code"] != 2:
                        acc.fail({"option": "invalid-value", "carrier": "per-language-block", "key": key, "value": "zero" if bad == 0 else "negative", "mode": f"exit{r['exit_code']}"}, {"cmd": cmd2, "files": files2, "config": cfg, "carrier": "yaml"}, {"exit": 2}, {"exit": r["exit_code"]})
        # the same documented-invalid values given on the command line
        for lname, flag in (("nesting", "--max-depth"), ("srp", "--max-methods"), ("srp", "--max-loc"), ("dry", "--min-lines"), ("pipeline", "--min-continues")):
            st = _linter_setup(lname)
            if st is None:
                continue
            cmd2, prefix2, files2, base2, _sec = st
            for bad in ("0", "-1"):
                vs, r = _run(cmd2, prefix2, files2, base2 or None, "yaml", extra_argv=[flag, bad])
                acc.case()
                acc.edge()
                acc.valid()
                acc.nt(("invalid-cli", cmd2, flag, bad))
                if r["exit_code"] != 2:
                    acc.fail({"option": "invalid-value", "carrier": "command-line", "flag": flag, "value": "zero" if bad == "0" else "negative", "mode": f"exit{r['exit_code']}"}, {"cmd": cmd2, "argv": [flag, bad], "files": files2, "config": base2 or {}, "carrier": "yaml"}, {"exit": 2}, {"exit": r["exit_code"]}, "a non-positive limit on the command line must end the run with exit code 2")
        garbage = {"yaml": (".thailint.yaml", "nesting: [unclosed\n  x: {"), "json": (".thailint.json", '{"nesting": '), "pyproject": ("pyproject.toml", "[tool.thailint\nnesting = {"), "config-yaml": ("custom-config.yaml", "a: [b\n c: {"), "config-json": ("custom-config.json", '{"a": '), "group-config-yaml": ("custom-config.yaml", "a: [b\n c: {")}
        for name in load.linters():
            st = _linter_setup(name)
            if st is None:
                continue
            cmd, prefix, files, base, section = st
            for carrier, (fname, content) in garbage.items():
                fs = {**files, fname: content}
                argv = ["--config", fname] if carrier.startswith("config-") else []
                pre = ["--config", fname] if carrier.startswith("group-") else []
                root = project(fs)
                r = obs.cli_inproc([*pre, cmd, *argv, "--format", "json", "."], root)
                remove(root)
                acc.case()
                acc.edge()
                acc.valid()
                acc.nt(("unparsable", name, carrier))
                if r["exit_code"] != 2:
                    acc.fail({"option": "unparsable-file", "carrier": carrier, "mode": "not-exit-2"}, {"cmd": cmd, "carrier": carrier, "files": fs, "argv": argv}, {"exit": 2}, {"exit": r["exit_code"], "stdout": r["stdout"][:150]}, "an unparsable configuration file must end the run with exit 2, not fall back to defaults")
    return acc


def replay_case(case) -> list[dict]:
    """Re-run the work item the case came from and keep the failures of this very case; also
    show the single CLI run through a fresh process."""
    from mc.core.isolate import canon  # noqa: PLC0415

    item = case.get("_item")
    if "files" in case and case.get("cmd"):
        if "config" in case and "carrier" in case:
            fs, argv = _place(case["files"], case["config"], case["carrier"])
        else:
            fs, argv = dict(case["files"]), []
        argv = argv + list(case.get("argv", [])) if "config" in case else list(case.get("argv", []))
        root = project(fs)
        pre = []
        if argv and argv[0] == "@@GROUP":
            pre, argv = argv[1:3], argv[3:]
        r = obs.cli_subprocess([*pre, case["cmd"], *argv, "--format", "json", "."], root)
        print(f"$ thailint {case['cmd']} {' '.join(argv)} --format json .   (files: {sorted(fs)})")
        for n in fs:
            if n.startswith((".thailint", "pyproject", "custom-config")):
                print(f"--- {n} ---\n{fs[n]}")
        print(f"exit={r['exit_code']}\n{r['stdout'][:1200]}\n{r['stderr'][-300:]}")
        remove(root)
    if not item:
        return []
    want = canon({k: v for k, v in case.items() if k != "_item"})
    acc = run_item(item)
    return [f for f in acc.failures if canon({k: v for k, v in f["case"].items() if k != "_item"}) == want]
