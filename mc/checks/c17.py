"""C17 — Rust safety linters flag exactly the risky calls outside test code.

E-input: generated Rust files from an item grammar (sync/async fn, attribute sets, #[cfg(test)]
modules nested up to 2, impl blocks) whose bodies hold planted calls at recorded lines, x all settings
of allow_in_tests / allow_expect / detect_*.  Expected multiset of (rule id, line) by construction.
"""

from __future__ import annotations

import re

import collections
import itertools

from mc.core import obs
from mc.core.enum import chunks
from mc.core.isolate import project, remove, yaml_dump
from mc.core.runner import Acc

PROPERTY = "C17"
LEVEL = "model_checking"
RULE = (
    "case = (container: sync/async fn x attribute set x module nesting x impl) x (planted statement) "
    "x (configuration); the product container x statement is enumerated completely per linter and "
    "batched into files, every configuration of the menu is applied; non-trivial = the model "
    "predicts a report under at least one configuration; distinct by (container, statement, config)"
)
ASSUMPTIONS = [
    "test code = inside a function carrying #[test] or inside a module carrying #[cfg(test)] (any depth); #[tokio::test], #[cfg(not(test))] and #[cfg(all(test, ...))] are in a separately signed extended group",
    "a loop is for / while / loop (docs); iterator-adaptor closures are not loops",
    "planted statements are orthogonal: each clone is in exactly one of the documented patterns or in none",
]
BOUND = {
    "quick": "all containers (2 x 6 attribute sets x {top, impl, cfg(test) mod depth 1 and 2, plain mod}) x all planted statements (10 unwrap, 12 clone, 14 blocking) x 4 configurations per linter",
    "thorough": "plus all ordered pairs of planted statements in one body and the extended attribute group",
}
MIN_NONTRIVIAL = {"quick": 1500, "thorough": 4000}

ATTRS = {
    "none": ([], False),
    "test": (["#[test]"], True),
    "inline": (["#[inline]"], False),
    "doc+test": (["/// documented", "#[test]"], True),
    "test+allow": (["#[test]", "#[allow(dead_code)]"], True),
    "allow+test": (["#[allow(dead_code)]", "#[test]"], True),
    "test+comment": (["#[test]", "// why this case matters"], True),
}
EXT_ATTRS = {"tokio-test": (["#[tokio::test]"], None), "cfg-not-test": (["#[cfg(not(test))]"], None)}
WRAPS = ["top", "impl", "mod", "cfgtest1", "cfgtest2", "mod-in-cfgtest", "cfgtest-comment"]

# planted statements: (name, lines, [(rule, line offset)] expected when everything is enabled)
UNWRAP = [
    ("unwrap", ["let v = opt.unwrap();"], [("unwrap-abuse.unwrap-call", 0)]),
    ("unwrap-chain", ["let v = load().unwrap().trim().to_string();"], [("unwrap-abuse.unwrap-call", 0)]),
    ("unwrap-in-closure", ["let f = |o: Option<u32>| o.unwrap();"], [("unwrap-abuse.unwrap-call", 0)]),
    ("unwrap-in-loop", ["for o in opts {", "    total += o.unwrap();", "}"], [("unwrap-abuse.unwrap-call", 1)]),
    ("unwrap-if-let", ["if let Some(x) = first {", "    total += second.unwrap() + x;", "}"], [("unwrap-abuse.unwrap-call", 1)]),
    ("two-unwraps", ["let v = a.unwrap() + b.unwrap();"], [("unwrap-abuse.unwrap-call", 0), ("unwrap-abuse.unwrap-call", 0)]),
    ("expect", ["let v = opt.expect(\"present\");"], [("unwrap-abuse.expect-call", 0)]),
    ("expect-multiline", ["let v = opt", "    .expect(\"present\");"], [("unwrap-abuse.expect-call", "0-1")]),
    ("unwrap_or", ["let v = opt.unwrap_or(0);"], []),
    ("unwrap_or_default", ["let v = opt.unwrap_or_default();", "let w = res.unwrap_or_else(|_| 0);"], []),
]
CLONE = [
    ("arg", ["consume(y.clone());", "touch(&y);"], []),
    ("let-used", ["let a = y.clone();", "consume(a);", "touch(&y);"], []),
    ("let-unused", ["let a = y.clone();", "consume(a);"], [("clone-abuse.unnecessary-clone", 0)]),
    ("let-used-in-format-capture", ["let a = y.clone();", "consume(a);", 'println!("kept {y} and {y:?}");'], []),
    ("let-used-same-line", ["let a = y.clone(); consume(a); touch(&y);"], []),
    ("let-unused-similar-name", ["let a = y.clone();", "consume(a);", 'println!("{year}", year = 1);'], [("clone-abuse.unnecessary-clone", 0)]),
    ("let-field", ["let a = self_like.field.clone();", "consume(a);"], []),
    ("for", ["for it in items.iter() {", "    consume(y.clone());", "}", "touch(&y);"], [("clone-abuse.clone-in-loop", 1)]),
    ("while", ["while more() {", "    consume(y.clone());", "}", "touch(&y);"], [("clone-abuse.clone-in-loop", 1)]),
    ("loop", ["loop {", "    consume(y.clone());", "    break;", "}", "touch(&y);"], [("clone-abuse.clone-in-loop", 1)]),
    ("nested-loop", ["for a in rows.iter() {", "    for b in a.iter() {", "        consume(y.clone());", "    }", "}", "touch(&y);"], [("clone-abuse.clone-in-loop", 2)]),
    ("closure-no-loop", ["items.iter().for_each(|it| consume(y.clone()));", "touch(&y);"], []),
    ("chain", ["consume(y.clone().clone());", "touch(&y);"], [("clone-abuse.clone-chain", 0)]),
    ("chain-other", ["consume(y.clone().to_string());", "touch(&y);"], []),
    ("after-loop", ["for it in items.iter() {", "    touch(it);", "}", "consume(y.clone());", "touch(&y);"], []),
]
BLOCK = [
    ("fs-full", ["let s = std::fs::read_to_string(path)?;"], [("blocking-async.fs-in-async", 0)]),
    ("fs-write", ["std::fs::write(path, data)?;"], [("blocking-async.fs-in-async", 0)]),
    ("fs-short", ["let s = fs::read(path)?;"], [("blocking-async.fs-in-async", 0)]),
    ("sleep-full", ["std::thread::sleep(delay);"], [("blocking-async.sleep-in-async", 0)]),
    ("sleep-short", ["thread::sleep(delay);"], [("blocking-async.sleep-in-async", 0)]),
    ("net-full", ["let c = std::net::TcpStream::connect(addr)?;"], [("blocking-async.net-in-async", 0)]),
    ("net-listener", ["let l = std::net::TcpListener::bind(addr)?;"], [("blocking-async.net-in-async", 0)]),
    ("tokio-fs", ["let s = tokio::fs::read_to_string(path).await?;"], []),
    ("tokio-sleep", ["tokio::time::sleep(delay).await;"], []),
    ("spawn-blocking", ["let s = tokio::task::spawn_blocking(move || {", "    std::fs::read_to_string(path)", "}).await?;"], []),
    ("block-in-place", ["let s = tokio::task::block_in_place(|| {", "    std::fs::read_to_string(path)", "});"], []),
    ("spawn-blocking-sleep", ["tokio::task::spawn_blocking(move || std::thread::sleep(delay)).await?;"], []),
    ("spawn-blocking-nested-closure", ["let sizes = tokio::task::spawn_blocking(move || {", "    paths.iter().map(|p| std::fs::read(p).map(|b| b.len())).collect::<Vec<_>>()", "}).await?;"], []),
    ("block-in-place-nested-closure", ["tokio::task::block_in_place(|| {", "    hosts.iter().for_each(|_| std::thread::sleep(delay));", "});"], []),
    ("closure-outside-wrapper", ["let sizes = paths.iter().map(|p| std::fs::read(p)).collect::<Vec<_>>();"], [("blocking-async.fs-in-async", 0)]),
    ("fs-feeding-awaited-call", ["client.send(std::fs::read(path).unwrap()).await;"], [("blocking-async.fs-in-async", 0)]),
    ("fs-in-loop", ["for p in paths {", "    let s = std::fs::read(p)?;", "}"], [("blocking-async.fs-in-async", 1)]),
    ("nested-helper-fn", ["fn helper(p: &str) -> Res {", "    let s = std::fs::read(p)?;", "    done()", "}", "helper(path)?;"], [("blocking-async.fs-in-async", 1)]),
    ("nested-helper-fn-sleep", ["fn pause(d: Dur) {", "    std::thread::sleep(d);", "}", "pause(delay);"], [("blocking-async.sleep-in-async", 1)]),
    ("plain", ["let n = compute(delay);"], []),
]
LINTERS = {
    "unwrap-abuse": (UNWRAP, "unwrap-abuse"),
    "clone-abuse": (CLONE, "clone-abuse"),
    "blocking-async": (BLOCK, "blocking-async"),
}
CONFIGS = {
    "unwrap-abuse": [{}, {"allow_in_tests": False}, {"allow_expect": False}, {"allow_in_tests": False, "allow_expect": False}],
    "clone-abuse": [{}, {"allow_in_tests": False}, {"detect_clone_in_loop": False}, {"detect_clone_chain": False}, {"detect_unnecessary_clone": False}],
    "blocking-async": [{}, {"allow_in_tests": False}, {"detect_fs_in_async": False}, {"detect_sleep_in_async": False}, {"detect_net_in_async": False}],
}
DETECT_KEY = {
    "clone-abuse.clone-in-loop": "detect_clone_in_loop", "clone-abuse.clone-chain": "detect_clone_chain", "clone-abuse.unnecessary-clone": "detect_unnecessary_clone",
    "blocking-async.fs-in-async": "detect_fs_in_async", "blocking-async.sleep-in-async": "detect_sleep_in_async", "blocking-async.net-in-async": "detect_net_in_async",
}


def _container(idx, asyncfn, attr_lines, wrap, body):
    """-> (lines, body_start_index_in_lines, in_cfg_test)"""
    sig = f"{'async ' if asyncfn else ''}fn item{idx}(path: &str, delay: Dur) -> Res {{"
    fn = list(attr_lines) + [sig] + ["    " + b for b in body] + ["    done()", "}"]
    body_off = len(attr_lines) + 1
    if wrap == "top":
        return fn, body_off, False
    ind = lambda ls, n=1: [("    " * n) + x for x in ls]  # noqa: E731
    if wrap == "impl":
        return [f"impl Holder{idx} {{"] + ind(fn) + ["}"], body_off + 1, False
    if wrap == "mod":
        return [f"mod plain{idx} {{"] + ind(fn) + ["}"], body_off + 1, False
    if wrap == "cfgtest1":
        return ["#[cfg(test)]", f"mod tests{idx} {{"] + ind(fn) + ["}"], body_off + 2, True
    if wrap == "cfgtest-comment":
        return ["#[cfg(test)]", "// unit tests live here", f"mod tests{idx} {{"] + ind(fn) + ["}"], body_off + 3, True
    if wrap == "cfgtest2":
        return ["#[cfg(test)]", f"mod tests{idx} {{", f"    mod inner{idx} {{"] + ind(fn, 2) + ["    }", "}"], body_off + 3, True
    if wrap == "mod-in-cfgtest":
        return [f"mod outer{idx} {{", "    #[cfg(test)]", f"    mod tests{idx} {{"] + ind(fn, 2) + ["    }", "}"], body_off + 3, True
    raise ValueError(wrap)


def items(tier: str, seed: int):
    out = []
    for linter, (stmts, _p) in LINTERS.items():
        combos = []
        for asyncfn in (False, True):
            for an in ATTRS:
                for wrap in WRAPS:
                    for st in stmts:
                        combos.append((asyncfn, an, wrap, st[0]))
        for block in chunks(combos, 40):
            out.append({"kind": "single", "linter": linter, "combos": block})
        out.append({"kind": "twins", "linter": linter})
        if tier == "thorough":
            pairs = [(a[0], b[0]) for a in stmts for b in stmts]
            for block in chunks(pairs, 30):
                out.append({"kind": "pairs", "linter": linter, "pairs": block})
            out.append({"kind": "extended", "linter": linter})
    return out


def _expected(linter, placed, cfg):
    """placed: list of (stmt name, expectations [(rule, abs line or (lo,hi))], in_test, asyncfn)."""
    allow_tests = cfg.get("allow_in_tests", True)
    out = []
    for _name, exps, in_test, asyncfn in placed:
        if in_test and allow_tests:
            continue
        if linter == "blocking-async" and not asyncfn:
            continue
        for rule, line in exps:
            if rule == "unwrap-abuse.expect-call" and cfg.get("allow_expect", True):
                continue
            if rule in DETECT_KEY and cfg.get(DETECT_KEY[rule], True) is False:
                continue
            out.append((rule, line))
    return out


def _match(exp, got):
    """exp lines may be ranges (lo,hi); returns (missing, extra)."""
    got = list(got)
    missing = []
    for rule, line in exp:
        lo, hi = (line, line) if isinstance(line, int) else line
        hit = next((g for g in got if g[0] == rule and lo <= g[1] <= hi), None)
        if hit:
            got.remove(hit)
        else:
            missing.append((rule, line))
    return missing, got


def _build_and_run(acc: Acc, linter, specs, tag):
    """specs: list of (asyncfn, attr name, wrap, [stmt names])"""
    stmts = {s[0]: s for s in LINTERS[linter][0]}
    lines, placed = ["use std::fs;", "use std::thread;", ""], []
    meta = []
    for i, (asyncfn, an, wrap, names) in enumerate(specs):
        attr_lines, is_test = (ATTRS.get(an) or EXT_ATTRS[an])
        body, offs = [], []
        for nm in names:
            offs.append(len(body))
            body += stmts[nm][1]
        cl, body_off, in_cfg = _container(i, asyncfn, attr_lines, wrap, body)
        base = len(lines)
        for k_, (nm, off) in enumerate(zip(names, offs)):
            exps = []
            later = " ".join(ln for n2 in names[k_ + 1 :] for ln in stmts[n2][1])
            for rule, rel in stmts[nm][2]:
                if rule == "clone-abuse.unnecessary-clone" and re.search(r"\by\b", later):
                    continue  # a later statement of the same body uses the source again: the clone is needed
                if isinstance(rel, int):
                    exps.append((rule, base + body_off + off + rel + 1))
                else:
                    a, b = (int(x) for x in rel.split("-"))
                    exps.append((rule, (base + body_off + off + a + 1, base + body_off + off + b + 1)))
            placed.append((nm, exps, (bool(is_test) or in_cfg) if is_test is not None else None, asyncfn))
            meta.append((nm, an, wrap, asyncfn))
        lines += cl + [""]
    text = "\n".join(lines) + "\n"
    prefix = LINTERS[linter][1]
    for cfg in CONFIGS[linter]:
        root = project({"src/lib.rs": text, ".thailint.yaml": yaml_dump({linter: cfg})})
        r = obs.cli_json([linter, "src/lib.rs"], root)
        remove(root)
        case = {"linter": linter, "text": text, "config": cfg, "specs": [list(x) for x in specs]}
        if r["violations"] is None:
            acc.fail({"linter": linter, "mode": f"exit{r['exit_code']}"}, case, "exit 0/1", r["stderr"][-300:])
            continue
        got = [(v["rule_id"], v["line"]) for v in r["violations"] if v["rule_id"].startswith(prefix)]
        known = [p for p in placed if p[2] is not None]
        exp = _expected(linter, known, cfg)
        # attribute rows whose test-ness is undefined are judged separately (extended group)
        unknown_lines = set()
        for nm, exps, t, _a in placed:
            if t is None:
                for _r, ln in exps:
                    unknown_lines.update(range(ln[0], ln[1] + 1) if isinstance(ln, tuple) else [ln])
        got_known = [g for g in got if g[1] not in unknown_lines]
        missing, extra = _match(exp, got_known)
        acc.case(len(placed))
        acc.valid(len(placed))
        acc.edge(len(placed))  # every planted statement under this switch setting vs. the model
        for (nm, an, wrap, asyncfn), (pn, exps, t, _a) in zip(meta, placed):
            if exps:
                acc.nt((linter, nm, an, wrap, asyncfn, tuple(sorted(cfg.items()))))
        acc.outcome((linter, len(exp), len(got_known)))
        cfgname = ",".join(f"{k}={v}" for k, v in sorted(cfg.items())) or "default"

        def describe(line):
            lo = line if isinstance(line, int) else line[0]
            for (nm, an, wrap, asyncfn), (pn, exps, t, _a) in zip(meta, placed):
                for _r, ln in exps:
                    l0 = ln if isinstance(ln, int) else ln[0]
                    if l0 == lo:
                        return nm, an, wrap, asyncfn
            # a report on a line without expectation: find the enclosing planted statement
            best = None
            for (nm, an, wrap, asyncfn), (pn, exps, t, _a) in zip(meta, placed):
                best = best or (nm, an, wrap, asyncfn)
            return ("?", "?", "?", "?")

        for rule, line in missing:
            nm, an, wrap, asyncfn = describe(line)
            in_test = bool(ATTRS.get(an, ([], False))[1]) or wrap in ("cfgtest1", "cfgtest2", "mod-in-cfgtest", "cfgtest-comment")
            ctx = "?" if an == "?" else ("test-context" if in_test else "production-code")
            acc.fail({"linter": linter, "mode": "missing", "rule": rule, "stmt": nm, "context": ctx, "config": cfgname}, {**case, "line": line, "attrs": an, "wrap": wrap}, {"reported": (rule, line)}, "not reported", tag)
        src = text.split("\n")
        for rule, line in extra:
            ctx = src[line - 1].strip() if 0 < line <= len(src) else ""
            kind = _stmt_at(text, line, specs, linter)
            acc.fail({"linter": linter, "mode": "extra", "rule": rule, "where": kind, "config": cfgname}, {**case, "line": line}, "no report", {"rule": rule, "line": line, "source": ctx}, tag)
    return text


def _stmt_at(text, line, specs, linter):
    """(stmt, attrs, wrap, async) of the container that holds `line` (for signatures)."""
    src = text.split("\n")
    i = line - 1
    while i >= 0 and "fn item" not in src[i]:
        i -= 1
    if i < 0:
        return "outside-any-item"
    idx = int(src[i].split("fn item")[1].split("(")[0])
    asyncfn, an, wrap, names = specs[idx]
    stmts = {s[0]: s for s in LINTERS[linter][0]}
    # which planted statement: first whose text matches the source line
    s_line = src[line - 1].strip()
    nm = next((n for n in names if any(x.strip() == s_line for x in stmts[n][1])), names[0])
    # one root cause = one signature: the statement and the two facts the model depends on
    # (test context, async fn); the concrete attribute list / wrapper stay in the replay case
    in_test = bool(ATTRS.get(an, ([], False))[1]) or wrap in ("cfgtest1", "cfgtest2", "mod-in-cfgtest", "cfgtest-comment")
    return f"{nm}|{'test-context' if in_test else 'production-code'}|{'async' if asyncfn else 'sync'}"


def run_item(item) -> Acc:
    acc = Acc()
    linter = item["linter"]
    if item["kind"] == "single":
        specs = [(a, an, w, [st]) for (a, an, w, st) in item["combos"]]
        text = _build_and_run(acc, linter, specs, "single")
        acc.sample({"linter": linter, "containers": [list(c) for c in item["combos"][:3]], "file_head": text[:500]})
    elif item["kind"] == "pairs":
        specs = []
        for i, (a, b) in enumerate(item["pairs"]):
            specs.append((True, "none" if i % 2 else "test", "top" if i % 3 else "cfgtest1", [a, b]))
        _build_and_run(acc, linter, specs, "pairs")
    elif item["kind"] == "twins":
        # two files of identical shape (same byte offsets for every item) that differ only in
        # whether the leading line is `#[test]` or a comment of the same length, linted in ONE run
        # in both orders: each file is judged on its own attributes
        stmts = LINTERS[linter][0]
        prefix = LINTERS[linter][1]
        for st in stmts:
            if not st[2] or not all(isinstance(off, int) for _r, off in st[2]):
                continue  # statements whose expectation is a line range are left to the single items
            body = "\n".join("    " + ln for ln in st[1])
            fn = f"async fn work(path: &str, delay: Dur) -> Res {{\n{body}\n    done()\n}}\n"
            files = {"src/a_test.rs": "#[test]\n" + fn, "src/b_plain.rs": "//plain\n" + fn}
            assert len(files["src/a_test.rs"]) == len(files["src/b_plain.rs"])
            # default configuration: expect() calls are allowed
            want_plain = sorted((rule, 2 + off + 1) for rule, off in st[2] if rule != "unwrap-abuse.expect-call")
            for order in (["src/a_test.rs", "src/b_plain.rs"], ["src/b_plain.rs", "src/a_test.rs"], ["src"]):
                root = project(dict(files))
                r = obs.cli_json([linter, *order], root)
                remove(root)
                acc.case()
                acc.edge()
                acc.valid()
                acc.nt((linter, "twins", st[0], tuple(order)))
                if r["violations"] is None:
                    acc.fail({"linter": linter, "mode": f"exit{r['exit_code']}", "run": "twin-files"}, {"linter": linter, "twin_files": files, "order": order}, "exit 0/1", r["stderr"][-200:])
                    continue
                got = {}
                for v in r["violations"]:
                    if v["rule_id"].startswith(prefix):
                        got.setdefault(v["file"].replace("\\", "/").split("src/")[-1], []).append((v["rule_id"], v["line"]))
                g_plain, g_test = sorted(got.get("b_plain.rs", [])), sorted(got.get("a_test.rs", []))
                if g_plain != want_plain or g_test:
                    acc.fail({"linter": linter, "mode": "file-judged-by-the-other-files-attributes", "run": "twin-files", "stmt": st[0]}, {"linter": linter, "twin_files": files, "order": order}, {"b_plain.rs": want_plain, "a_test.rs": []}, {"b_plain.rs": g_plain, "a_test.rs": g_test})
    elif item["kind"] == "extended":
        stmts = LINTERS[linter][0]
        specs = [(True, an, "top", [st[0]]) for an in EXT_ATTRS for st in stmts]
        _build_and_run(acc, linter, specs, "extended")
    return acc


def replay_case(case) -> list[dict]:
    """Rebuild the file from its item specs, re-run the real CLI and the model, keep this case."""
    acc = Acc()
    if case.get("twin_files"):
        a = run_item({"kind": "twins", "linter": case["linter"]})
        return [f for f in a.failures if f["case"].get("twin_files") == case["twin_files"] and f["case"].get("order") == case["order"]]
    line = case.get("line")
    lo, hi = (line, line) if isinstance(line, int) else tuple(line)
    src = case["text"].split("\n")
    print(f"config {case['linter']}: {case['config']}\nsource around line {lo}:")
    for i in range(max(0, lo - 8), min(len(src), hi + 3)):
        print(f"{i + 1:4d} | {src[i]}")
    root = project({"src/lib.rs": case["text"], ".thailint.yaml": yaml_dump({case["linter"]: case["config"]})})
    r = obs.cli_subprocess([case["linter"], "--format", "json", "src/lib.rs"], root)
    remove(root)
    vs = [v for v in (obs.parse_json_out(r["stdout"]) or []) if lo <= v["line"] <= hi]
    print("reported there by a fresh process:", [(v["rule_id"], v["line"], v["column"]) for v in vs])
    specs = [(a, an, w, list(names)) for a, an, w, names in case["specs"]]
    _build_and_run(acc, case["linter"], specs, "replay")
    return [f for f in acc.failures if f["case"].get("line") == line and f["case"]["config"] == case["config"]]
