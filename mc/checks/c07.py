"""C07 — `--parallel` reports exactly what the sequential run reports.

E-sched: the real Orchestrator.lint_files_parallel / _collect_parallel_results / _finalize_rules run
under a harness-owned executor (mc/core/vpool.py).  Worker side: every arrangement of the n files
into <= w ordered blocks (which worker process handles which files in which order) is executed in
forked children.  Parent side: every completion order of the futures is replayed on the stored
results.  Oracle: multiset over ALL fields == a fresh sequential lint_files on the same inputs.
"""

from __future__ import annotations

import itertools
from pathlib import Path

from mc.catalog import load
from mc.core import env, obs, vpool
from mc.core.enum import chunks, k_deviation_orders, set_partitions_ordered_blocks
from mc.core.isolate import project, remove, yaml_dump
from mc.core.runner import Acc

PROPERTY = "C07"
LEVEL = "model_checking"
RULE = (
    "execution = (project, worker count w, arrangement of the n files into <= w ordered worker "
    "blocks, completion order of the futures); worker-side arrangements and parent-side orders are "
    "enumerated exhaustively (product of sets, see DESIGN C07 reduction) for n <= bound, bounded "
    "deviations above; non-trivial = the sequential reference reports at least one violation and "
    "the pool path is actually taken (n >= 2w); distinct by the whole tuple"
)
ASSUMPTIONS = [
    "workers and parent share no mutable state except the pickled future results (separate processes), so worker-side arrangements and parent-side completion orders are explored as a product of sets",
    "the virtual pool forks one child per worker block; real OS scheduling of the real pool is only sampled by the conformance pass",
]
BOUND = {
    "quick": "w in {1,2,3} with n in {2w-1,2w,2w+1} <= 6: all arrangements x all n! orders; n=7 (w=3) and w in {4,8}: round-robin/contiguous/single-block arrangements x orders within 2 adjacent transpositions; 2 projects; CLI --parallel for every command; real-pool conformance",
    "thorough": "w <= 4, n <= 8 (worker side full up to n=7, n=8 canonical), parent side full n<=7, 3 deviations above; w in {8,16} canonical; 6 projects",
}
MIN_NONTRIVIAL = {"quick": 5000, "thorough": 30000}
FIELDS = ("rule_id", "file", "line", "column", "message", "severity", "suggestion")

# ----------------------------------------------------------------------------- projects

_DUP = """def {name}(items):
    total = compute_initial(items)
    total = total + adjust_first(items)
    total = total + adjust_second(items)
    total = total + adjust_third(items)
    total = total + adjust_fourth(items)
    return finish(total)
"""


def _pool_of_files():
    """Ordered list of (relative path, code): cross-file partners first, then per-file triggers."""
    zoo, cfg, index = load.zoo_project()
    out = []
    out.append(("pkg/dup_a.py", "import os\n\n\n" + _DUP.format(name="first_total")))
    out.append(("lib/dup_b.py", "import sys\n\n\n" + _DUP.format(name="second_total")))
    for key in (("stringly-typed", "python"), ("magic-numbers", "typescript"), ("unwrap-abuse", "rust"), ("improper-logging", "python"), ("nesting", "javascript"), ("srp", "python"), ("clone-abuse", "rust"), ("method-property", "python"), ("stringly-typed", "typescript")):
        for p in index.get(key, []):
            out.append((p, zoo[p]))
    have = {p for p, _c in out}
    for p, code in zoo.items():  # the rest of the zoo, so that n can reach 33
        if p not in have:
            out.append((p, code))
    cfg = load.deep_merge(cfg, {"dry": {"enabled": True, "min_duplicate_lines": 4}})
    return out, cfg


def _project_files(pid: int, n: int):
    pool, cfg = _pool_of_files()
    # three rotations so that different files sit at the block boundaries
    head = pool[:13]
    k = (pid * 3) % (len(head) - 2)
    rot = (head[:2] + head[2 + k :] + head[2 : 2 + k] if pid else head) + pool[13:]
    sel = list(rot[:n])
    # two of the given files are NOT to be linted (built-in excluded directory, top-level ignore
    # list); both carry the duplicated block, so showing either to a cross-file rule - or
    # withholding a real partner in its place - changes the findings
    if n >= 4:
        sel[n - 1] = ("build/dup_c.py", "import re\n\n\n" + _DUP.format(name="third_total"))
    if n >= 6:
        sel[n - 2] = ("skipme_dup_d.py", "import json\n\n\n" + _DUP.format(name="fourth_total"))
        cfg = load.deep_merge(cfg, {"ignore": ["skipme_*"]})
    # the same constant in (nearly) every file: duplicate-constant messages list and truncate
    # their "Also found in" locations in the order the files reached the rule
    out = {}
    for path, code in sel:
        if path.endswith(".py"):
            code = "MAX_RETRY_COUNT = 5\n" + code
        elif path.endswith((".ts", ".js")):
            code = "const MAX_RETRY_COUNT = 5;\n" + code
        out[path] = code
    return out, cfg


# ----------------------------------------------------------------------------- runs


def _vkey(v: dict, root) -> tuple:
    w = dict(v)
    w["file"] = obs.relfile(v["file"], root, root)
    return tuple(w.get(k) for k in FIELDS)


def _sequential(root: Path, files: list[Path], cfg: dict):
    r = obs.api_lint_files(root, files, dict(cfg), full=True)
    return sorted(_vkey(v, root) for v in r["violations"]), r


def _parallel(root: Path, files: list[Path], cfg: dict, w: int, blocks=None, order=None, results=None):
    from src.orchestrator.core import Orchestrator  # noqa: PLC0415

    env.reset_caches()
    with vpool.install() as log, obs.swallow_tap() as tap:
        vpool.SCHEDULE.update({"blocks": blocks, "order": order, "results": results})
        o = Orchestrator(project_root=root, config=dict(cfg))
        try:
            vs = o.lint_files_parallel(files, max_workers=w)
            exc = None
        except Exception as e:  # noqa: BLE001
            vs, exc = [], f"{type(e).__name__}: {e}"
        vec = log["vector"]
        used = log["pools"] > 0
        swallowed = list(tap.records)
    return sorted(_vkey(obs.vdict(v, full=True), root) for v in vs), vec, used, exc, swallowed


def _diff_sigs(ref, got, side):
    """One signature per rule id whose multiset differs."""
    import collections  # noqa: PLC0415

    cr, cg = collections.Counter(ref), collections.Counter(got)
    missing = list((cr - cg).elements())
    extra = list((cg - cr).elements())
    sigs = {}
    for t in missing:
        rid = t[0]
        same_site = [e for e in extra if e[0] == rid and e[1] == t[1] and e[2] == t[2]]
        mode = "field-differs" if same_site else "missing-in-parallel"
        sigs.setdefault((rid, mode), []).append(t)
    for t in extra:
        rid = t[0]
        if any(m[0] == rid and m[1] == t[1] and m[2] == t[2] for m in missing):
            continue
        sigs.setdefault((rid, "extra-in-parallel"), []).append(t)
    # the root cause of a differing rule does not depend on which side exposed it
    return [({"rule": rid, "mode": mode}, ex) for (rid, mode), ex in sorted(sigs.items())]


def _compare(acc: Acc, ref, got, side, case, exc=None, swallowed=None):
    if exc:
        acc.fail({"side": side, "mode": "exception"}, case, "no exception", exc)
        return
    if swallowed:
        acc.fail({"side": side, "mode": "swallowed-failure"}, case, "no internal failure", swallowed[:2])
    if ref != got:
        for sig, ex in _diff_sigs(ref, got, side):
            acc.fail(sig, case, {"sequential_has": len(ref)}, {"parallel_has": len(got), "examples": ex[:2]})


def _canonical_blocks(n, w):
    rr = [[i for i in range(n) if i % w == b] for b in range(w)]
    step = -(-n // w)
    cont = [list(range(i, min(n, i + step))) for i in range(0, n, step)]
    rev = [list(reversed(b)) for b in cont]
    single = [list(range(n))]
    out = []
    for b in (rr, cont, rev, single):
        b = [x for x in b if x]
        if b not in out:
            out.append(b)
    return out


# ----------------------------------------------------------------------------- items


def items(tier: str, seed: int):
    out = []
    nproj = 2 if tier == "quick" else 6
    full = [(1, 1), (1, 2), (1, 3), (2, 3), (2, 4), (2, 5), (3, 5), (3, 6)]
    if tier == "thorough":
        full += [(3, 7), (4, 7)]
    for pid in range(nproj):
        for w, n in full:
            arr = list(set_partitions_ordered_blocks(range(n), w))
            for block in chunks(arr, 120):
                out.append({"kind": "worker", "pid": pid, "w": w, "n": n, "arrangements": block})
            perms = list(itertools.permutations(range(n)))
            for block in chunks(perms, 400):
                out.append({"kind": "parent", "pid": pid, "w": w, "n": n, "orders": block})
        big = [(3, 7), (4, 8), (4, 9), (8, 16), (8, 17)] if tier == "quick" else [(4, 8), (4, 9), (8, 15), (8, 16), (8, 17), (16, 32), (16, 33)]
        for w, n in big:
            out.append({"kind": "canonical", "pid": pid, "w": w, "n": n, "dev": 2 if tier == "quick" else 3})
    for cmd_block in chunks(load.ALL_COMMANDS, 4):
        out.append({"kind": "cli", "commands": cmd_block})
    out.append({"kind": "emptycfg"})
    out.append({"kind": "cli-multi-dir"})
    out.append({"kind": "cli-config"})
    out.append({"kind": "realpool"})
    return out


def _setup(pid, n):
    files, cfg = _project_files(pid, n)
    # the configuration travels as .thailint.json for odd project ids: the repository-level
    # ignore parser reads only .thailintignore / .thailint.yaml, the orchestrator must do the rest
    carrier = {".thailint.json": __import__("json").dumps(cfg)} if pid % 2 else {".thailint.yaml": yaml_dump(cfg)}
    # the checkout lives below a directory with an always-excluded NAME (and is addressed by
    # absolute paths): built-in exclusions are about the path inside the project only
    root = project({**files, **carrier}, name=("venv/proj" if pid % 2 else "build/proj"))
    paths = [root / p for p in files]
    return root, paths, cfg, list(files)


def run_item(item) -> Acc:
    acc = Acc()
    k = item["kind"]
    if k in ("worker", "parent", "canonical"):
        pid, w, n = item["pid"], item["w"], item["n"]
        root, paths, cfg, names = _setup(pid, n)
        ref, r = _sequential(root, paths, cfg)
        pool_path = n >= 2 * w
        base = {"project": pid, "w": w, "n": n, "files": names}
        if k == "worker":
            # reference result vector: every file in its own fresh child
            _g, vec0, _u, _e, _s = _parallel(root, paths, cfg, w, blocks=[[i] for i in range(n)] if pool_path else None)
            for blocks in item["arrangements"]:
                order = [i for b in blocks for i in b]
                got, vec, used, exc, sw = _parallel(root, paths, cfg, w, blocks=blocks, order=order)
                acc.case()
                acc.edge()
                acc.valid()
                acc.outcome((len(got), used))
                if ref and used:
                    acc.nt((pid, w, n, blocks))
                case = {**base, "blocks": blocks, "order": order}
                if used != pool_path:
                    acc.fail({"side": "threshold", "mode": "pool-used" if used else "pool-not-used"}, case, {"pool": pool_path}, {"pool": used}, "sequential fallback threshold is n < 2*workers")
                _compare(acc, ref, got, "worker", case, exc, sw)
                if used and vec0 is not None and vec != vec0:
                    acc.fail({"side": "worker", "mode": "result-vector-depends-on-arrangement"}, case, "per-file results independent of the arrangement", "differs from the one-file-per-child vector")
            acc.sample({**base, "arrangement": item["arrangements"][-1], "sequential_violations": len(ref)})
        elif k == "parent":
            if pool_path:
                _g, vec0, _u, _e, _s = _parallel(root, paths, cfg, w, blocks=[[i] for i in range(n)])
                for order in item["orders"]:
                    got, _v, used, exc, sw = _parallel(root, paths, cfg, w, order=list(order), results=vec0)
                    acc.case()
                    acc.edge()
                    acc.valid()
                    acc.outcome((len(got), "p"))
                    if ref:
                        acc.nt((pid, w, n, "order", order))
                    _compare(acc, ref, got, "parent", {**base, "order": list(order), "stored_results": True}, exc, sw)
                acc.sample({**base, "completion_order": list(item["orders"][-1])})
        else:
            for blocks in _canonical_blocks(n, w):
                flat = [i for b in blocks for i in b]
                for dev in k_deviation_orders(n, item["dev"])[:: max(1, len(k_deviation_orders(n, item["dev"])) // 60)]:
                    order = [flat[i] for i in dev]
                    # completion order must respect each block's own order
                    pos = {x: i for i, x in enumerate(order)}
                    if any(pos[b[i]] > pos[b[i + 1]] for b in blocks for i in range(len(b) - 1)):
                        continue
                    got, _v, used, exc, sw = _parallel(root, paths, cfg, w, blocks=blocks, order=order)
                    acc.case()
                    acc.edge()
                    acc.valid()
                    if ref and used:
                        acc.nt((pid, w, n, blocks, order))
                    case = {**base, "blocks": blocks, "order": order}
                    if used != pool_path:
                        acc.fail({"side": "threshold", "mode": "pool-used" if used else "pool-not-used"}, case, {"pool": pool_path}, {"pool": used})
                    _compare(acc, ref, got, "worker", case, exc, sw)
        remove(root)
    elif k == "cli":
        # the CLI flag: every command, default worker count derived from the (patched) cpu count
        for cmd in item["commands"]:
            for cpus, n in ((1, 2), (2, 4), (2, 5), (3, 6)):
                root, paths, cfg, names = _setup(0, n)
                seq = obs.cli_json([cmd, *names], root)
                for blocks in _canonical_blocks(n, cpus)[:3]:
                    with vpool.install(cpu_count=cpus):
                        vpool.SCHEDULE.update({"blocks": blocks, "order": [i for b in blocks for i in b], "results": None})
                        par = obs.cli_json([cmd, "--parallel", *names], root)
                    acc.case()
                    acc.edge()
                    acc.valid()
                    case = {"cli": cmd, "cpus": cpus, "n": n, "files": names, "blocks": blocks}
                    if seq["violations"]:
                        acc.nt((cmd, cpus, n, blocks))
                    if seq["exit_code"] != par["exit_code"]:
                        acc.fail({"side": "cli", "command": cmd, "mode": "exit-code"}, case, seq["exit_code"], par["exit_code"], par["stderr"][-200:])
                    a = sorted(tuple(v.get(f) for f in FIELDS[:6]) for v in (seq["violations"] or []))
                    b = sorted(tuple(v.get(f) for f in FIELDS[:6]) for v in (par["violations"] or []))
                    if a != b:
                        for sig, ex in _diff_sigs(a, b, "cli"):
                            acc.fail(sig, case, {"sequential_has": len(a)}, {"parallel_has": len(b), "examples": ex[:2]})
                remove(root)
    elif k == "emptycfg":
        # parent holds an EMPTY configuration (e.g. --config pointing at an empty file) while the
        # project root has its own .thailint.yaml: workers must use the parent's, not reload the file
        for w, n in ((1, 2), (2, 4), (2, 5), (3, 6)):
            files, cfg = _project_files(0, n)
            strict = load.deep_merge(cfg, {"nesting": {"max_nesting_depth": 1}, "magic-numbers": {"allowed_numbers": []}})
            root = project({**files, ".thailint.yaml": yaml_dump(strict)})
            paths = [root / p for p in files]
            ref, _r = _sequential(root, paths, {})
            for blocks in _canonical_blocks(n, w):
                order = [i for b in blocks for i in b]
                got, _v, used, exc, sw = _parallel(root, paths, {}, w, blocks=blocks, order=order)
                acc.case()
                acc.edge()
                acc.valid()
                if used:
                    acc.nt(("emptycfg", w, n, blocks))
                _compare(acc, ref, got, "empty-parent-config", {"project": 0, "w": w, "n": n, "files": list(files), "blocks": blocks, "order": order, "empty_config": True}, exc, sw)
            remove(root)
    elif k == "cli-config":
        # an explicit --config file (same as the project's, a looser one, or an EMPTY one) while
        # the project root has its own strict .thailint.yaml: workers must see the parent's choice
        files, cfg = _project_files(0, 6)
        strict = load.deep_merge(cfg, {"nesting": {"max_nesting_depth": 1}, "magic-numbers": {"allowed_numbers": []}})
        variants = {
            "empty": "# nothing configured here\n",
            "empty-json": "{}\n",
            "same": yaml_dump(strict),
            "loose": yaml_dump({"nesting": {"max_nesting_depth": 6}, "magic-numbers": {"allowed_numbers": [5, 42, 3600]}}),
        }
        for cmd in ("nesting", "magic-numbers", "dry"):
            for vname, text in variants.items():
                for cpus, n in ((1, 2), (2, 4), (3, 6)):
                    names = list(files)[:n]
                    cfile = "alt/choice.json" if vname.endswith("json") else "alt/choice.yaml"
                    root = project({**{k_: files[k_] for k_ in names}, ".thailint.yaml": yaml_dump(strict), cfile: text})
                    seq = obs.cli_json([cmd, "--config", cfile, *names], root)
                    with vpool.install(cpu_count=cpus):
                        vpool.SCHEDULE.update({"blocks": None, "order": None, "results": None})
                        par = obs.cli_json([cmd, "--config", cfile, "--parallel", *names], root)
                    acc.case(2)
                    acc.edge()
                    acc.valid()
                    if seq["violations"] or par["violations"]:
                        acc.nt(("cli-config", cmd, vname, cpus, n))
                    case = {"cli": cmd, "cpus": cpus, "n": n, "config_variant": vname, "cli_config": True}
                    if seq["exit_code"] != par["exit_code"]:
                        acc.fail({"side": "cli", "command": cmd, "mode": "exit-code", "config": vname}, case, seq["exit_code"], par["exit_code"])
                    a = sorted(tuple(v.get(f) for f in FIELDS[:6]) for v in (seq["violations"] or []))
                    b = sorted(tuple(v.get(f) for f in FIELDS[:6]) for v in (par["violations"] or []))
                    if a != b:
                        for sig, ex in _diff_sigs(a, b, "cli"):
                            acc.fail({**sig, "config": "explicit-empty" if vname.startswith("empty") else "explicit"}, case, {"sequential_has": len(a)}, {"parallel_has": len(b), "examples": ex[:2]})
                    remove(root)
    elif k == "cli-multi-dir":
        # several directory arguments: sequential and parallel must treat them alike
        files, cfg = _project_files(0, 6)
        for cmd in ("dry", "stringly-typed", "magic-numbers", "nesting"):
            for cpus in (1, 2):
                root = project({**files, ".thailint.yaml": yaml_dump(cfg)})
                tops = sorted({p.split("/")[0] for p in files if "/" in p})
                seq = obs.cli_json([cmd, *tops], root)
                with vpool.install(cpu_count=cpus):
                    vpool.SCHEDULE.update({"blocks": None, "order": None, "results": None})
                    par = obs.cli_json([cmd, "--parallel", *tops], root)
                acc.case(2)
                acc.edge()
                acc.valid()
                if seq["violations"]:
                    acc.nt(("multi-dir", cmd, cpus))
                case = {"cli": cmd, "cpus": cpus, "targets": tops, "multi_dir": True}
                if seq["exit_code"] != par["exit_code"]:
                    acc.fail({"side": "cli", "command": cmd, "mode": "exit-code", "targets": "several-directories"}, case, seq["exit_code"], par["exit_code"])
                a = sorted(tuple(v.get(f) for f in FIELDS[:6]) for v in (seq["violations"] or []))
                b = sorted(tuple(v.get(f) for f in FIELDS[:6]) for v in (par["violations"] or []))
                if a != b:
                    for sig, ex in _diff_sigs(a, b, "cli"):
                        acc.fail({**sig, "targets": "several-directories"}, case, {"sequential_has": len(a)}, {"parallel_has": len(b), "examples": ex[:2]})
                remove(root)
    elif k == "realpool":
        # conformance: the unpatched ProcessPoolExecutor through a fresh process
        files, cfg, _idx = load.zoo_project()
        files = dict(list(files.items())[:24])
        files["pkg/dup_a.py"] = "import os\n\n\n" + _DUP.format(name="first_total")
        files["lib/dup_b.py"] = "import sys\n\n\n" + _DUP.format(name="second_total")
        # an extension-less script (python by its shebang) that takes part in a cross-file finding, and
        # two files that only analyse with the process-wide limits the CLI entry point lifts
        # (integer digits, recursion depth): real workers must see what the sequential run sees
        files["tools/runner"] = "#!/usr/bin/env python3\nimport json\n\n\n" + _DUP.format(name="third_total")
        files["pkg/hugeint.py"] = "BIG = " + "7" * 5000 + "\n\n\ndef show(n):\n    print(n, 3642)\n    return n * 3643\n"
        files["lib/deep.ts"] = "export function deep(n: number): number {\n  console.log(n);\n  return n + " + "(" * 1500 + "3641" + ")" * 1500 + ";\n}\n"
        cfg = load.deep_merge(cfg, {"dry": {"enabled": True, "min_duplicate_lines": 4}})
        root = project({**files, ".thailint.yaml": yaml_dump(cfg)})
        for cmd in ("magic-numbers", "nesting", "improper-logging", "dry", "stringly-typed", "srp"):
            seq = obs.cli_json([cmd, "."], root, sub=True)
            par = obs.cli_json([cmd, "--parallel", "."], root, sub=True)
            acc.case(2)
            acc.edge()
            acc.valid()
            if seq["violations"]:
                acc.nt(("realpool", cmd))
            seen = {obs.relfile(v["file"], root, root) for v in (seq["violations"] or [])}
            for need_cmd, need in (("magic-numbers", "pkg/hugeint.py"), ("magic-numbers", "lib/deep.ts"), ("improper-logging", "lib/deep.ts"), ("dry", "tools/runner")):
                if cmd == need_cmd and need not in seen:
                    raise RuntimeError(f"realpool item is vacuous: the sequential {cmd} run reports nothing in {need}")
            case = {"realpool": True, "cli": cmd, "files": sorted(files)}
            if seq["exit_code"] != par["exit_code"]:
                acc.fail({"side": "cli", "command": cmd, "mode": "exit-code"}, case, seq["exit_code"], par["exit_code"], par["stderr"][-200:])
            a = sorted(tuple(v.get(f) for f in FIELDS[:6]) for v in (seq["violations"] or []))
            b = sorted(tuple(v.get(f) for f in FIELDS[:6]) for v in (par["violations"] or []))
            if a != b:
                for sig, ex in _diff_sigs(a, b, "cli"):
                    acc.fail(sig, case, {"sequential_has": len(a)}, {"parallel_has": len(b), "examples": ex[:2]})
        remove(root)
    return acc


def replay_case(case) -> list[dict]:
    acc = Acc()
    if case.get("empty_config"):
        return [f for f in run_item({"kind": "emptycfg"}).failures if f["case"].get("blocks") == case.get("blocks") and f["case"].get("n") == case.get("n")]
    if case.get("multi_dir"):
        return [f for f in run_item({"kind": "cli-multi-dir"}).failures if f["case"].get("cli") == case["cli"]]
    if case.get("cli_config"):
        return [f for f in run_item({"kind": "cli-config"}).failures if all(f["case"].get(k_) == case.get(k_) for k_ in ("cli", "cpus", "n", "config_variant"))]
    if case.get("realpool") or "cli" in case:
        cmd = case["cli"]
        if case.get("realpool"):
            acc2 = run_item({"kind": "realpool"})
            return [f for f in acc2.failures if f["case"].get("cli") == cmd]
        acc2 = run_item({"kind": "cli", "commands": [cmd]})
        return acc2.failures
    pid, w, n = case["project"], case["w"], case["n"]
    root, paths, cfg, names = _setup(pid, n)
    ref, _r = _sequential(root, paths, cfg)
    print(f"project {pid}: {names}\nworkers={w} blocks={case.get('blocks')} completion order={case.get('order')}")
    if case.get("stored_results"):
        _g, vec0, *_ = _parallel(root, paths, cfg, w, blocks=[[i] for i in range(n)])
        got, _v, used, exc, sw = _parallel(root, paths, cfg, w, order=case["order"], results=vec0)
        _compare(acc, ref, got, "parent", case, exc, sw)
    else:
        got, _v, used, exc, sw = _parallel(root, paths, cfg, w, blocks=case.get("blocks"), order=case.get("order"))
        _compare(acc, ref, got, "worker", case, exc, sw)
    print(f"sequential: {len(ref)} violations; parallel: {len(got)} violations")
    remove(root)
    return acc.failures
