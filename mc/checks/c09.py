"""C09 — results do not depend on how paths are spelled or where the project lives.

E-input, relocation/respelling edges: one multi-language project (every documented violating
example, a tests/ sub-directory, a repository ignore pattern, a linter-level ignore pattern) is
placed under every parent-directory name of the alphabet (one and two levels up), linted from every
working directory with every spelling of directory and file targets by every command and by the
library API; the normalised multiset must equal the baseline (neutral parent, cwd = root, absolute).
"""

from __future__ import annotations

import os
from pathlib import Path

from mc.catalog import load
from mc.core import env, obs
from mc.core.isolate import project, remove, yaml_dump
from mc.core.runner import Acc

PROPERTY = "C09"
LEVEL = "model_checking"
RULE = (
    "case = (parent directory name, depth of that parent, working directory, target spelling, "
    "command or API); complete product in thorough, every value of every dimension against all "
    "values of the others for directory targets and the neutral cwd for file targets in quick; "
    "non-trivial = the baseline run reports at least one violation; distinct by the whole tuple"
)
ASSUMPTIONS = [
    "violations are compared after making the reported file path project-relative and after removing the project root from messages that quote paths",
    "the project root is marked by a .git directory inside the project, so root detection does not depend on the parents",
]
BOUND = {
    "quick": "17 parent names x {1, 2 levels up} x 20 commands x 4 cwds x 4 directory spellings + 3 file spellings; library API for every parent",
    "thorough": "full product incl. sub-directory targets from every cwd",
}
MIN_NONTRIVIAL = {"quick": 5000, "thorough": 20000}

PARENTS = [
    "work", "build", "dist", "venv", ".venv", "node_modules", "__pycache__", "pkg.egg-info", ".pytest_cache",
    ".mypy_cache", ".ruff_cache", "tests", "test", "test_data", "examples", "benches", "my_test.d", "shelf",
]


def _files():
    # one documented violating example per linter (first language the docs give), to keep a run cheap
    keep = {}
    for name, lang, _fs, _c in load.all_triggers():
        keep.setdefault(name, lang)
    zoo, cfg, index = load.zoo_project()
    index = {k: v for k, v in index.items() if keep.get(k[0]) == k[1] or k[0] in ("magic-numbers", "improper-logging", "nesting")}
    files = {p: zoo[p] for ps in index.values() for p in ps}
    # a tests/ directory and ignore patterns INSIDE the project (these must keep working)
    files["tests/test_sample.py"] = "def test_x():\n    print(3601)\n"
    files["legacy/old.py"] = "def f():\n    print(3601)\n"
    files["vendor/lib.py"] = "def g():\n    print(3601)\n"
    files["generated/auto/gen.py"] = "def h(n):\n    print(3601)\n    return n * 3602\n"
    files["generated/kept.py"] = "def k(n):\n    print(3603)\n    return n * 3604\n"
    # every command needs something to report: placement rules and a regex compiled in a loop
    files["generated/notes.txt"] = "not a python file\n"
    files["generated/auto/readme.md"] = "generated\n"
    files["perfcase/regex_loop.py"] = "import re\n\n\ndef scan(lines):\n    for line in lines:\n        re.search('x+', line)\n"
    # a duplicated block that in-file directives suppress (looked up again when dry finalizes)
    blk = "    alpha = fetch_alpha(job)\n    beta = alpha.transform(job)\n    gamma = combine(alpha, beta)\n    delta = publish(gamma, job)\n    return finish(delta)\n"
    files["dupsup/first.py"] = "def first_total(job):\n    # thailint: ignore-start dry\n" + blk + "    # thailint: ignore-end\n"
    files["dupsup/second.py"] = "def second_total(job):\n    # thailint: ignore-start dry\n" + blk + "    # thailint: ignore-end\n"
    # repository-level patterns with a nested directory prefix (one per carrier)
    files["archive/old/dead.py"] = "def d(n):\n    print(3605)\n    return n * 3606\n"
    files["archive/parked/idle.py"] = "def i(n):\n    print(3607)\n    return n * 3608\n"
    files["archive/live.py"] = "def l(n):\n    print(3609)\n    return n * 3610\n"
    files[".thailintignore"] = "legacy/\narchive/old/\n"
    cfg = load.deep_merge(cfg, {"file-placement": {"directories": {"generated": {"allow": [r".*\.py$"]}, "generated/auto": {"deny": [{"pattern": r".*\.md$", "message": "no documents among generated code"}]}}}})
    cfg = load.deep_merge(cfg, {"ignore": ["archive/parked/"], "improper-logging": {"ignore": ["vendor/", "generated/auto/*"]}, "magic-numbers": {"ignore": ["vendor/", "generated/auto/*"]}})
    # a shelf/ directory holding a copy of every example, ignored by EVERY linter's own `ignore:`
    # list (and a parent directory called shelf in PARENTS: the pattern must not swallow a project
    # that merely lives below a directory of that name)
    for ps in index.values():
        for p in ps:
            files["shelf/" + p] = zoo[p]
    for name, d in load.linters().items():
        section = (d.get("config_sections") or [name])[0]
        cur = dict(cfg.get(section) or {})
        cur["ignore"] = list(cur.get("ignore") or []) + ["shelf/"]
        cfg[section] = cur
    files[".thailint.yaml"] = yaml_dump(cfg)
    return files, index


def _place(parent: str, depth: int):
    base = env.fresh_dir("loc")
    if depth == 1:
        holder = base / parent
    else:
        holder = base / parent / "inner"
    holder.mkdir(parents=True)
    files, index = _files()
    root = project(files, name="proj", parent=holder)
    other = base / "elsewhere"
    other.mkdir()
    # the other working directory is a project of its own whose ignore file excludes everything:
    # it has nothing to say about the project being linted
    (other / ".git").mkdir()
    (other / ".thailintignore").write_text("*.py\n*.ts\n*.js\n*.rs\n*.txt\n*.md\n")
    (other / "link").symlink_to(root, target_is_directory=True)
    return base, root, other, index


_PATHTOK = __import__("re").compile(r"(?<![\w/.-])((?:\.{1,2}/|/)?[\w./-]*\.(?:py|ts|js|rs|tsx|jsx))(?=[:\s,)]|$)")


def _normmsg(msg: str, root: Path, cwd: Path) -> str:
    """Messages that quote file paths (duplicate code): make every quoted path project-relative."""

    def fix(m):
        tok = m.group(1)
        if "/" not in tok:
            return tok  # bare file names are not path spellings
        return obs.relfile(tok, root, cwd)

    return _PATHTOK.sub(fix, msg)


def _norm(vs, root: Path, cwd: Path):
    out = []
    for v in vs or []:
        out.append((v["rule_id"], obs.relfile(v["file"], root, cwd), v["line"], v["column"], _normmsg(v["message"], root, cwd)))
    return sorted(out, key=lambda t: tuple(str(x) for x in t))


def _spellings(root: Path, cwd: Path, sub: str | None):
    """{name: argv path} for the directory `sub` (None = root) as seen from cwd."""
    target = root / sub if sub else root
    rel = os.path.relpath(target, cwd)
    out = {"abs": str(target), "rel": rel, "dotted": "./" + rel if not rel.startswith(".") else rel, "slashes": str(target).replace("/proj", "//proj/.", 1)}
    if rel != ".":
        out["trailing"] = rel + "/"
    if sub is None and cwd == root:
        # an absolute path that is not in normal form: <root>/tests/.. is the root again
        out["abs-dotdot"] = str(target / "tests" / "..")
    if sub is None and cwd.name == "elsewhere":
        # the same project reached through a symbolic link that lives in this directory
        out["symlink"] = "link"
        out["symlink-abs"] = str(cwd / "link")
    return out


def items(tier: str, seed: int):
    out = []
    for p in PARENTS:
        for depth in (1, 2):
            if tier == "quick" and depth == 2 and p not in ("work", "build", "tests", "examples"):
                continue
            out.append({"parent": p, "depth": depth, "full": tier == "thorough"})
    return out


def _baseline(cmds):
    base, root, other, index = _place("work", 1)
    res = {}
    for cmd in cmds:
        r = obs.cli_json([cmd, str(root)], root)
        res[cmd] = (r["exit_code"], _norm(r["violations"], root, root))
    from src.api import Linter  # noqa: PLC0415

    env.reset_caches()
    with obs.cwd(root):
        api = _norm([obs.vdict(v) for v in Linter(project_root=root).lint(str(root))], root, root)
    remove(base)
    return res, api


def run_item(item) -> Acc:
    acc = Acc()
    parent, depth = item["parent"], item["depth"]
    cmds = load.ALL_COMMANDS
    ref, ref_api = _baseline(cmds)
    silent = [c for c in cmds if not ref[c][1]]
    if silent:
        # a command with nothing to report cannot show a dependence on location or spelling
        raise RuntimeError(f"vacuous C09 project: no baseline violation for {silent}")
    base, root, other, index = _place(parent, depth)
    # grandparent: the relative spelling of the project then runs THROUGH the parent's name
    cwds = {"root": root, "subdir": root / "tests", "parent": root.parent, "elsewhere": other, "grandparent": base}
    fails: dict = {}

    def check(cmd, cwd_name, spelling, argv_path, kind, expect, parallel=False):
        cwd = cwds[cwd_name]
        if parallel:
            # the same run with --parallel (two virtual workers): the parent's cross-file pass and the
            # workers see the target as spelled
            from mc.core import vpool  # noqa: PLC0415

            with vpool.install(cpu_count=2):
                vpool.SCHEDULE.update({"blocks": None, "order": None, "results": None})
                r = obs.cli_json([cmd, "--parallel", argv_path], cwd)
        else:
            r = obs.cli_json([cmd, argv_path], cwd)
        got = (r["exit_code"], _norm(r["violations"], root, cwd))
        acc.case()
        acc.edge()
        acc.valid()
        if expect[1]:
            acc.nt((parent, depth, cmd, cwd_name, spelling, kind))
        acc.outcome((cmd, len(got[1])))
        if got != expect:
            missing = [t for t in expect[1] if t not in got[1]]
            extra = [t for t in got[1] if t not in expect[1]]
            mode = "missing" if missing and not extra else ("extra" if extra and not missing else ("exit" if not missing and not extra else "differs"))
            rules = sorted({t[0] for t in missing + extra}) or ["<exit-code>"]
            for rid in rules:
                key = (rid, mode, "parent-name" if parent != "work" else "spelling-or-cwd")
                fails.setdefault(key, []).append({"parent": parent, "depth": depth, "cmd": cmd, "cwd": cwd_name, "spelling": spelling, "argv_path": argv_path, "kind": kind, "missing": missing[:2], "extra": extra[:2], "exit": got[0]})

    for cmd in cmds:
        # directory target = whole project
        for cwd_name in ("root", "subdir", "parent", "elsewhere", "grandparent"):
            sp = _spellings(root, cwds[cwd_name], None)
            for sname, path in sp.items():
                if not item["full"] and (sname in ("dotted", "trailing", "symlink-abs") or (cwd_name in ("subdir", "parent", "grandparent") and sname != "rel")):
                    continue
                check(cmd, cwd_name, sname, path, "root-dir", ref[cmd])
                if cmd in ("dry", "stringly-typed", "magic-numbers") and cwd_name in ("root", "elsewhere", "grandparent") and sname in ("abs", "rel"):
                    check(cmd, cwd_name, sname, path, "root-dir-parallel", ref[cmd], parallel=True)
        # file target: this command's own trigger file(s)
        own = [paths for (name, _lg), paths in index.items() if cmd in (load.linters()[name].get("commands") or [])]
        for paths in own[:2]:
            f = paths[0]
            exp_f = (ref[cmd][0], [t for t in ref[cmd][1] if t[1] == f])
            if load.linters()[[n for (n, _l), ps in index.items() if ps is paths][0]].get("cross_file"):
                continue
            exp_f = (1 if exp_f[1] else 0, exp_f[1])
            for cwd_name in (("root", "elsewhere") if not item["full"] else tuple(cwds)):
                cwd = cwds[cwd_name]
                rel = os.path.relpath(root / f, cwd)
                for sname, path in (("abs", str(root / f)), ("rel", rel), ("dotted", "./" + rel if not rel.startswith(".") else rel)):
                    check(cmd, cwd_name, sname, path, "file", exp_f)
        if cmd in ("improper-logging", "print-statements", "magic-numbers"):
            # linter-level ignore pattern with a directory prefix, seen from INSIDE that directory
            exp_g = [t for t in ref[cmd][1] if t[1].startswith("generated/")]
            for cwd_name, cwd, targets in (("in-generated", root / "generated", [".", "auto", "auto/gen.py", "kept.py"]), ("in-generated-auto", root / "generated" / "auto", [".", "gen.py", "../kept.py", ".."]),
                                           ("in-archive", root / "archive", [".", "old", "old/dead.py", "parked", "parked/idle.py", "live.py"]), ("in-archive-old", root / "archive" / "old", [".", "dead.py", "../parked/idle.py", ".."])):
                cwds[cwd_name] = cwd
                exp_all = [t for t in ref[cmd][1] if t[1].startswith(("generated/", "archive/"))]
                for tpath in targets:
                    tgt = os.path.normpath(os.path.join(cwd, tpath))
                    relt = os.path.relpath(tgt, root)
                    exp_t = [t for t in exp_all if t[1] == relt or t[1].startswith(relt + "/")]
                    check(cmd, cwd_name, "rel", tpath, "inside-ignored-prefix", (1 if exp_t else 0, exp_t))
        if item["full"]:
            for cwd_name in [c for c in cwds if not c.startswith("in-")]:
                for sname, path in _spellings(root, cwds[cwd_name], "tests").items():
                    exp_s = [t for t in ref[cmd][1] if t[1].startswith("tests/")]
                    check(cmd, cwd_name, sname, path, "sub-dir", (1 if exp_s else 0, exp_s))
    # library API
    from src.api import Linter  # noqa: PLC0415

    for cwd_name, cwd in list(cwds.items()):
        if cwd_name.startswith("in-"):
            continue
        for sname, path in _spellings(root, cwd, None).items():
            env.reset_caches()
            with obs.cwd(cwd):
                try:
                    vs = Linter(project_root=root).lint(path)
                    got = _norm([obs.vdict(v) for v in vs], root, cwd)
                except Exception as e:  # noqa: BLE001
                    got = [("<exception>", str(e)[:100], 0, 0, "")]
            acc.case()
            acc.edge()
            acc.valid()
            if ref_api:
                acc.nt((parent, depth, "api", cwd_name, sname))
            if got != ref_api:
                missing = [t for t in ref_api if t not in got]
                extra = [t for t in got if t not in ref_api]
                for rid in sorted({t[0] for t in missing + extra}):
                    mode = "missing" if any(t[0] == rid for t in missing) and not any(t[0] == rid for t in extra) else "extra-or-differs"
                    fails.setdefault((rid, mode, "parent-name" if parent != "work" else "spelling-or-cwd", "api"), []).append({"parent": parent, "depth": depth, "cmd": "Linter.lint", "cwd": cwd_name, "spelling": sname, "argv_path": path, "kind": "api", "missing": missing[:2], "extra": extra[:2]})
    remove(base)
    # one signature per (dimension, parent, mode): the set of affected rules, "all" when (nearly)
    # every rule of the baseline is affected -- the root cause does not depend on the rule then
    all_rules = {t[0] for c in ref.values() for t in c[1]} | {t[0] for t in ref_api}
    grouped: dict = {}
    for key, lst in fails.items():
        rid, mode, dim = key[0], key[1], key[2]
        mode = "missing" if mode == "missing" else "differs"
        g = grouped.setdefault((dim, mode), {"rules": set(), "cases": [], "api_only": True})
        g["rules"].add(rid)
        g["cases"].extend(lst)
        if len(key) == 3:
            g["api_only"] = False
    for (dim, mode), g in grouped.items():
        c0 = g["cases"][0]
        rules = "all" if len(g["rules"] & all_rules) >= max(1, len(all_rules) - 3) else sorted(g["rules"])
        sig = {"dimension": dim, "mode": mode, "rules": rules}
        if dim == "parent-name":
            sig["parent"] = parent
        else:
            sig["cwd"] = sorted({c["cwd"] for c in g["cases"]})
            sig["spelling"] = sorted({c["spelling"] for c in g["cases"]})
        if g["api_only"]:
            sig["entry"] = "api-only"
        acc.fail(sig, c0, {"same_as_baseline": True}, {"missing": c0["missing"], "extra": c0["extra"]}, f"{len(g['cases'])} runs differ from the baseline; spellings {sorted({c['spelling'] for c in g['cases']})}; depth {depth}")
    acc.sample({"parent": parent, "depth": depth, "cwds": list(cwds), "commands": len(cmds)})
    return acc


def replay_case(case) -> list[dict]:
    base, root, other, index = _place(case["parent"], case["depth"])
    # grandparent: the relative spelling of the project then runs THROUGH the parent's name
    cwds = {"root": root, "subdir": root / "tests", "parent": root.parent, "elsewhere": other, "grandparent": base}
    cwd = cwds[case["cwd"]]
    path = case["argv_path"]
    # the recorded path belongs to another scratch directory: rebuild it from the spelling
    target = root
    rel = os.path.relpath(target, cwd)
    if case["kind"] in ("root-dir", "root-dir-parallel"):
        path = _spellings(root, cwd, None)[case["spelling"]]
    par = ["--parallel"] if case["kind"] == "root-dir-parallel" else []
    print(f"project at {root}\ncwd = {cwd}\n$ thailint {case['cmd']} {' '.join(par)} {path}")
    if case["cmd"] != "Linter.lint":
        r = obs.cli_subprocess([case["cmd"], "--format", "json", *par, path], cwd)
        got = _norm(obs.parse_json_out(r["stdout"]), root, cwd)
        print(f"exit={r['exit_code']} violations={len(got)}")
        b2, root2, _o, _i = _place("work", 1)
        r2 = obs.cli_subprocess([case["cmd"], "--format", "json", str(root2)], root2)
        ref = _norm(obs.parse_json_out(r2["stdout"]), root2, root2)
        print(f"baseline (neutral parent, cwd=root, absolute): exit={r2['exit_code']} violations={len(ref)}")
        remove(b2)
        remove(base)
        a = Acc()
        if got != ref or r["exit_code"] != r2["exit_code"]:
            a.fail({"replayed": True}, case, len(ref), len(got))
        return a.failures
    remove(base)
    del rel
    return run_item({"parent": case["parent"], "depth": case["depth"], "full": False}).failures
