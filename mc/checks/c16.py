"""C16 — SRP linter applies its method, size and keyword thresholds exactly.

E-input: generated classes (Python, TypeScript/JavaScript) and struct+impl groups (Rust) with
p public / q private / d dunder / r property / s static members and a body padded with statements,
blank lines and comments to a chosen LOC, x threshold settings swept around the true counts,
keyword checking on/off, per-language override blocks contradicting the top-level values.
Reference model from docs/srp-linter.md; the message must list exactly the exceeded criteria.
"""

from __future__ import annotations

import itertools
import re

from mc.core import obs
from mc.core.enum import chunks
from mc.core.isolate import project, remove, yaml_dump
from mc.core.runner import Acc

PROPERTY = "C16"
LEVEL = "model_checking"
RULE = (
    "case = (language, class shape (p,q,d,r,s, padding), name, thresholds, keyword settings, override "
    "block); shapes and threshold offsets are enumerated as a complete product within the bound; "
    "non-trivial = at least one criterion is within +-1 of its threshold or a keyword applies; "
    "distinct by the whole tuple"
)
ASSUMPTIONS = [
    "methods = public (name not starting with `_`), non-dunder, non-@property members; static/class methods count (docs: Method Counting Rules)",
    "LOC = non-blank, non-comment lines from the class/struct header to the last line of the class (Rust: struct definition plus all its impl blocks); docstrings and TS constructors/getters are outside the alphabet (their treatment is not documented)",
    "message grammar: `Class 'N' may violate SRP: <k> methods (max: M), <n> lines (max: L), responsibility keyword in name` with exactly the exceeded criteria",
]
BOUND = {
    "quick": "p in 0..4, q,d,r,s in {0,1}, 3 paddings, max_methods in {p-1,p,p+1}, max_loc in {loc-1,loc,loc+1}, keywords on/off x name with/without keyword, 2 classes per file, per-language overrides for 4 languages",
    "thorough": "p in 0..9, member kinds 0..2, 3 classes per file, two impl blocks in every split",
}
MIN_NONTRIVIAL = {"quick": 2000, "thorough": 8000}
MSG = re.compile(r"Class '([^']+)' may violate SRP: (.*)$")
KEYWORD = "Manager"


def py_class(name, p, q, d, r, s, pad, ind=""):
    L = [f"{ind}class {name}:"]
    b = ind + "    "
    for i in range(d):
        dn = ["__init__", "__str__"][i % 2]
        L += [f"{b}def {dn}(self):", f"{b}    return None"]
    for i in range(p):
        L += [f"{b}def pub{i}(self):", f"{b}    return {i}"]
    for i in range(q):
        L += [f"{b}def _priv{i}(self):", f"{b}    return {i}"]
    for i in range(r):
        L += [f"{b}@property", f"{b}def prop{i}(self):", f"{b}    return {i}"]
    for i in range(s):
        L += [f"{b}@staticmethod", f"{b}def stat{i}():", f"{b}    return {i}"]
    if p + q + d + r + s == 0:
        L += [f"{b}field = 0"]
    for kind in pad:  # all padding goes right below the class header, at class-body level
        if kind == "blank":
            L.insert(1, "")
        elif kind == "comment":
            L.insert(1, f"{b}# explanatory comment")
        else:
            L.insert(1, f"{b}extra_{len(L)} = 0")
    return L


def ts_class(name, p, q, d, r, s, pad, ind=""):  # noqa: ARG001
    L = [f"{ind}class {name} {{"]
    b = ind + "  "
    for i in range(p):
        L += [f"{b}pub{i}() {{", f"{b}  return {i};", f"{b}}}"]
    for i in range(q):
        L += [f"{b}_priv{i}() {{", f"{b}  return {i};", f"{b}}}"]
    for i in range(s):
        L += [f"{b}static stat{i}() {{", f"{b}  return {i};", f"{b}}}"]
    if p + q + s == 0:
        L += [f"{b}field = 0;"]
    L += [f"{ind}}}"]
    for kind in pad:
        if kind == "blank":
            L.insert(1, "")
        elif kind == "comment":
            L.insert(1, f"{b}// explanatory comment")
        else:
            L.insert(1, f"{b}extra{len(L)} = 0;")
    return L


def rs_struct(name, p, q, d, r, s, pad, ind="", split=False):
    L = [f"struct {name} {{", "    id: u32,", "}", "", f"impl {name} {{"]
    methods = [f"    pub fn pub{i}(&self) -> u32 {{ {i} }}" for i in range(p)] + [f"    fn _priv{i}(&self) -> u32 {{ {i} }}" for i in range(q)] + [f"    pub fn stat{i}() -> u32 {{ {i} }}" for i in range(s)]
    if split and len(methods) > 1:
        h = len(methods) // 2
        L += methods[:h] + ["}", "", f"impl {name} {{"] + methods[h:]
    else:
        L += methods
    L += ["}"]
    for kind in pad:
        if kind == "blank":
            L.insert(len(L) - 1, "")
        elif kind == "comment":
            L.insert(len(L) - 1, "    // explanatory comment")
        else:
            L.insert(1, f"    extra{len(L)}: u32,")
    return L


def nested_variant(lang, name, p):
    """Class/struct with p public methods whose first method declares a nested helper function in
    its body: the helper is not a member and must not be counted as a method."""
    L = GEN[lang][0](name, p, 0, 0, 0, 0, ())
    i = next(k for k, ln in enumerate(L) if "pub0" in ln)
    if lang == "py":
        L[i : i + 2] = ["    def pub0(self):", "        def helper():", "            return 1", "        return helper()"]
    elif lang in ("ts", "js"):
        L[i : i + 3] = ["  pub0() {", "    function helper() {", "      return 1;", "    }", "    return helper();", "  }"]
    else:
        L[i : i + 1] = ["    pub fn pub0(&self) -> u32 {", "        fn helper() -> u32 { 1 }", "        helper()", "    }"]
    return L


def loc_of(lines, lang):
    cm = "#" if lang == "py" else "//"
    return sum(1 for ln in lines if ln.strip() and not ln.strip().startswith(cm))


GEN = {"py": (py_class, ".py"), "ts": (ts_class, ".ts"), "js": (ts_class, ".js"), "rs": (rs_struct, ".rs")}


def model(name, methods, loc, mm, ml, check_kw, keywords):
    crit = []
    if methods > mm:
        crit.append(("methods", methods, mm))
    if loc > ml:
        crit.append(("lines", loc, ml))
    if check_kw and any(k in name for k in keywords):
        crit.append(("keyword",))
    return crit


def parse_msg(msg):
    m = MSG.search(msg)
    if not m:
        return None, None
    crit = []
    for part in m.group(2).split(", "):
        a = re.match(r"(\d+) methods \(max: (\d+)\)", part)
        b = re.match(r"(\d+) lines \(max: (\d+)\)", part)
        if a:
            crit.append(("methods", int(a.group(1)), int(a.group(2))))
        elif b:
            crit.append(("lines", int(b.group(1)), int(b.group(2))))
        elif "keyword" in part:
            crit.append(("keyword",))
        else:
            crit.append(("?", part))
    return m.group(1), crit


def shapes(tier):
    pr = range(0, 5) if tier == "quick" else range(0, 10)
    kinds = (0, 1) if tier == "quick" else (0, 1, 2)
    pads = [(), ("blank", "comment"), ("stmt", "stmt", "blank")]
    for p in pr:
        for q, d, r, s in itertools.product(kinds, repeat=4):
            for pad in pads:
                yield (p, q, d, r, s, pad)


def items(tier: str, seed: int):
    out = []
    for lang in GEN:
        sh = []
        for (p, q, d, r, s, pad) in shapes(tier):
            if lang != "py" and (d or r):
                continue  # dunder / @property members exist in Python only
            sh.append((p, q, d, r, s, pad))
        for block in chunks(sh, 10):
            out.append({"kind": "shapes", "lang": lang, "shapes": block})
        out.append({"kind": "overrides", "lang": lang})
        out.append({"kind": "nested-helper", "lang": lang})
        out.append({"kind": "enclosed", "lang": lang})
    out.append({"kind": "multi"})
    out.append({"kind": "mixed-languages"})
    return out


def _lint(lang, text, cfg):
    ext = GEN[lang][1]
    root = project({f"shape{ext}": text, ".thailint.yaml": yaml_dump({"srp": cfg})})
    r = obs.cli_json(["srp", f"shape{ext}"], root)
    vs = None if r["violations"] is None else [v for v in r["violations"] if v["rule_id"] == "srp.violation"]
    remove(root)
    return vs, r


def _judge(acc, lang, text, classes, cfg, vs, r, extra_sig=None, case_extra=None):
    """classes: list of (name, methods, loc, header_line)."""
    case = {"lang": lang, "text": text, "srp_config": cfg, **(case_extra or {})}
    if vs is None:
        acc.fail({"lang": lang, "mode": f"exit{r['exit_code']}"}, case, "exit 0/1", r["stderr"][-300:])
        return
    by_name = {}
    for v in vs:
        n, crit = parse_msg(v["message"])
        by_name.setdefault(n, []).append((crit, v["line"], v["message"]))
    eff = dict(cfg)
    for k in ("python", "typescript", "javascript", "rust"):
        eff.pop(k, None)
    lk = {"py": "python", "ts": "typescript", "js": "javascript", "rs": "rust"}[lang]
    ov = cfg.get(lk) or {}
    mm = ov.get("max_methods", cfg.get("max_methods", 7))
    ml = ov.get("max_loc", cfg.get("max_loc", 200))
    ck = cfg.get("check_keywords", True)
    kws = cfg.get("keywords", ["Manager", "Handler", "Processor", "Utility", "Helper"])
    for name, methods, loc, header in classes:
        acc.case()
        acc.valid()
        want = model(name, methods, loc, mm, ml, ck, kws)
        acc.edge()  # one threshold setting of the sweep around this class's true counts
        near = abs(methods - mm) <= 1 or abs(loc - ml) <= 1 or any(k in name for k in kws)
        if near:
            acc.nt((lang, name, methods, loc, mm, ml, ck))
        got = by_name.get(name, [])
        acc.outcome((lang, bool(want), len(got)))
        sig = {"lang": lang, **(extra_sig or {})}
        c1 = {**case, "class": name, "methods": methods, "loc": loc}
        if not want and got:
            which = sorted({c[0] for g in got for c in (g[0] or [])})
            acc.fail({**sig, "mode": "reported-at-or-below-limit", "criteria": which}, c1, "not reported", [g[2] for g in got])
        elif want and not got:
            acc.fail({**sig, "mode": "not-reported-above-limit", "criteria": sorted(c[0] for c in want)}, c1, want, "not reported")
        elif want:
            if len(got) != 1:
                acc.fail({**sig, "mode": "reported-more-than-once"}, c1, 1, len(got))
            crit, line, msg = got[0]
            if sorted(crit or []) != sorted(want):
                wk, gk = sorted(c[0] for c in want), sorted(c[0] for c in (crit or []))
                mode = "wrong-criteria-listed" if wk != gk else "wrong-count-in-message"
                det = sorted({c[0] for c in set(want) ^ set(crit or [])})
                acc.fail({**sig, "mode": mode, "criteria": det}, c1, want, crit, msg)
            if line != header:
                acc.fail({**sig, "mode": "line-not-class-header"}, c1, header, line)
    for n in by_name:
        if n not in {c[0] for c in classes}:
            acc.fail({"lang": lang, "mode": "phantom-class"}, case, "only generated classes", n)


def _render(lang, specs):
    """specs: list of (name, p,q,d,r,s,pad, split) -> text, classes"""
    gen = GEN[lang][0]
    lines, classes = [], []
    for (name, p, q, d, r, s, pad, split) in specs:
        cl = gen(name, p, q, d, r, s, pad, split=split) if lang == "rs" else gen(name, p, q, d, r, s, pad)
        header = len(lines) + 1
        classes.append((name, p + s, loc_of(cl, lang), header))
        lines += cl + [""]
    return "\n".join(lines) + "\n", classes


def run_item(item) -> Acc:
    acc = Acc()
    k = item["kind"]
    if k == "shapes":
        lang = item["lang"]
        for (p, q, d, r, s, pad) in item["shapes"]:
            for kw in (False, True):
                name = f"Order{KEYWORD}" if kw else "OrderLedger"
                text, classes = _render(lang, [(name, p, q, d, r, s, pad, False)])
                _n, methods, loc, _h = classes[0]
                for dm in (-1, 0, 1):
                    for dl in (-1, 0, 1):
                        mm, ml = methods + dm, loc + dl
                        if mm < 1 or ml < 1:
                            continue
                        for ck in (True, False):
                            if not kw and not ck:
                                continue
                            cfg = {"max_methods": mm, "max_loc": ml, "check_keywords": ck}
                            vs, res = _lint(lang, text, cfg)
                            _judge(acc, lang, text, classes, cfg, vs, res)
            if lang == "rs" and p + q + s > 1:
                text, classes = _render(lang, [("OrderLedger", p, q, d, r, s, pad, True)])
                _n, methods, loc, _h = classes[0]
                for dm, dl in ((-1, 1), (0, 0), (1, -1), (0, -1)):
                    if methods + dm < 1:
                        continue
                    cfg = {"max_methods": methods + dm, "max_loc": loc + dl, "check_keywords": False}
                    vs, res = _lint(lang, text, cfg)
                    _judge(acc, lang, text, classes, cfg, vs, res, {"layout": "two-impl-blocks"})
        acc.sample({"lang": lang, "shape": item["shapes"][-1], "thresholds": "max_methods in {m-1,m,m+1} x max_loc in {loc-1,loc,loc+1} x keywords"})
    elif k == "overrides":
        lang = item["lang"]
        lk = {"py": "python", "ts": "typescript", "js": "javascript", "rs": "rust"}[lang]
        text, classes = _render(lang, [("OrderLedger", 3, 1, 0, 0, 0, (), False)])
        _n, methods, loc, _h = classes[0]
        for other in ("python", "typescript", "javascript", "rust"):
            for top, ovv in ((methods - 1, methods + 5), (methods + 5, methods - 1)):
                if top < 1 or ovv < 1:
                    continue
                cfg = {"max_methods": top, "max_loc": 500, "check_keywords": False, other: {"max_methods": ovv}}
                vs, res = _lint(lang, text, cfg)
                _judge(acc, lang, text, classes, cfg, vs, res, {"override_block": "own-language" if other == lk else "other-language"})
                cfg = {"max_methods": 50, "max_loc": loc + (5 if top > ovv else -1), "check_keywords": False, other: {"max_loc": loc + (-1 if top > ovv else 5)}}
                vs, res = _lint(lang, text, cfg)
                _judge(acc, lang, text, classes, cfg, vs, res, {"override_block": "own-language" if other == lk else "other-language"})
                # a block that overrides only ONE threshold: the other one still comes from the top level
                cfg = {"max_methods": methods - 1, "max_loc": 500, "check_keywords": False, other: {"max_loc": 400}}
                vs, res = _lint(lang, text, cfg)
                _judge(acc, lang, text, classes, cfg, vs, res, {"override_block": "partial-" + ("own-language" if other == lk else "other-language")})
                cfg = {"max_methods": 50, "max_loc": loc - 1, "check_keywords": False, other: {"max_methods": 40}}
                vs, res = _lint(lang, text, cfg)
                _judge(acc, lang, text, classes, cfg, vs, res, {"override_block": "partial-" + ("own-language" if other == lk else "other-language")})
    elif k == "nested-helper":
        lang = item["lang"]
        for p in (1, 2, 3, 4):
            cl = nested_variant(lang, "OrderLedger", p)
            text = "\n".join(cl) + "\n"
            classes = [("OrderLedger", p, loc_of(cl, lang), 1)]
            for dm in (-1, 0, 1):
                if p + dm < 1:
                    continue
                cfg = {"max_methods": p + dm, "max_loc": 500, "check_keywords": False}
                vs, res = _lint(lang, text, cfg)
                _judge(acc, lang, text, classes, cfg, vs, res, {"layout": "nested-helper-function-in-method"})
    elif k == "enclosed":
        # the class / struct+impl sits inside something: a module, a function body, a namespace
        lang = item["lang"]
        for p in (2, 3, 4):
            cl = GEN[lang][0]("OrderLedger", p, 1, 0, 0, 0, ())
            wraps = {
                "py": {"in-function": (["def build():"], "    ", ["    return OrderLedger"]), "in-if": (["if FEATURE:"], "    ", []),
                       "in-except-handler": (["try:", "    from fastlib import OrderLedger", "except ImportError:"], "    ", []),
                       "in-try-body": (["try:"], "    ", ["except ImportError:", "    OrderLedger = None"]),
                       "in-match-case": (["match FLAVOUR:", "    case \"plain\":"], "        ", [])},
                "ts": {"in-namespace": (["namespace Billing {"], "  ", ["}"]), "in-function": (["function build() {"], "  ", ["  return OrderLedger;", "}"])},
                "js": {"in-function": (["function build() {"], "  ", ["  return OrderLedger;", "}"]), "in-block": (["{"], "  ", ["}"])},
                "rs": {"in-mod": (["mod billing {"], "    ", ["}"]), "in-test-mod": (["#[cfg(test)]", "mod tests {"], "    ", ["}"]), "in-fn": (["fn build() {"], "    ", ["}"])},
            }[lang]
            for wname, (head, pad, tail) in wraps.items():
                lines = head + [pad + ln if ln else ln for ln in cl] + tail
                text = "\n".join(lines) + "\n"
                classes = [("OrderLedger", p, loc_of(cl, lang), len(head) + 1)]
                for dm in (-1, 0, 1):
                    if p + dm < 1:
                        continue
                    cfg = {"max_methods": p + dm, "max_loc": 500, "check_keywords": False}
                    vs, res = _lint(lang, text, cfg)
                    _judge(acc, lang, text, classes, cfg, vs, res, {"layout": "enclosed-" + wname})
    elif k == "mixed-languages":
        # one run over files of several languages with per-language override blocks: each file is
        # judged with the thresholds of ITS language, whatever the order the files are given in
        texts, cls = {}, {}
        for lang in GEN:
            texts[lang], cls[lang] = _render(lang, [("OrderLedger", 3, 1, 0, 0, 0, (), False)])
        names = {lang: f"shape{GEN[lang][1]}" for lang in GEN}
        lk = {"py": "python", "ts": "typescript", "js": "javascript", "rs": "rust"}
        for strict in GEN:  # exactly one language gets a limit below the class's 3 methods
            cfg = {"max_methods": 5, "max_loc": 500, "check_keywords": False}
            for lang in GEN:
                cfg[lk[lang]] = {"max_methods": 2 if lang == strict else 3 + list(GEN).index(lang)}
            orders = list(itertools.permutations(list(GEN)))[:: 1]
            for order in orders + ["."]:
                root = project({**{names[lg]: texts[lg] for lg in GEN}, ".thailint.yaml": yaml_dump({"srp": cfg})})
                args = ["."] if order == "." else [names[lg] for lg in order]
                r = obs.cli_json(["srp", *args], root)
                remove(root)
                for lang in GEN:
                    vs = None if r["violations"] is None else [v for v in r["violations"] if v["rule_id"] == "srp.violation" and v["file"].endswith(GEN[lang][1])]
                    _judge(acc, lang, texts[lang], cls[lang], cfg, vs, r, {"run": "several-languages-in-one-run"},
                           {"run_files": {names[lg]: texts[lg] for lg in GEN}, "run_args": args})
    elif k == "multi":
        for lang in GEN:
            specs = [("AlphaLedger", 4, 1, 0, 0, 0, (), False), (f"Beta{KEYWORD}", 1, 0, 0, 0, 0, ("blank",), False), ("GammaLedger", 2, 0, 0, 0, 1, ("comment",), False)]
            text, classes = _render(lang, specs)
            for mm in (1, 2, 3, 4, 5):
                for ck in (True, False):
                    cfg = {"max_methods": mm, "max_loc": 500, "check_keywords": ck}
                    vs, res = _lint(lang, text, cfg)
                    _judge(acc, lang, text, classes, cfg, vs, res, {"layout": "three-classes-per-file"})
        # nested class (Python)
        inner = py_class("InnerLedger", 3, 0, 0, 0, 0, (), ind="    ")
        outer = ["class OuterLedger:", "    def run(self):", "        return 0"] + inner
        text = "\n".join(outer) + "\n"
        for mm in (1, 2, 3):
            cfg = {"max_methods": mm, "max_loc": 500, "check_keywords": False}
            vs, res = _lint("py", text, cfg)
            _judge(acc, "py", text, [("InnerLedger", 3, loc_of(inner, "py"), 4)], cfg, [v for v in (vs or []) if "InnerLedger" in v["message"]] if vs is not None else None, res, {"layout": "nested-class"})
    return acc


def replay_case(case) -> list[dict]:
    acc = Acc()
    lang = case["lang"]
    ext = GEN[lang][1]
    if case.get("run_files"):
        root = project({**case["run_files"], ".thailint.yaml": yaml_dump({"srp": case["srp_config"]})})
        r = obs.cli_subprocess(["srp", "--format", "json", *case["run_args"]], root)
        print("$ thailint srp", *case["run_args"])
        import json as _json  # noqa: PLC0415

        try:
            doc = _json.loads(r["stdout"])
            doc["violations"] = [v for v in doc.get("violations", []) if str(v.get("file_path", v.get("file", ""))).endswith(ext)]
            r["stdout"] = _json.dumps(doc)
        except ValueError:
            pass
    else:
        root = project({f"shape{ext}": case["text"], ".thailint.yaml": yaml_dump({"srp": case["srp_config"]})})
        r = obs.cli_subprocess(["srp", "--format", "json", f"shape{ext}"], root)
    print(f"srp config: {case['srp_config']}\n--- shape{ext} ---\n{case['text']}\nclass {case.get('class')}: model methods={case.get('methods')} loc={case.get('loc')}")
    print(f"exit={r['exit_code']}\n{r['stdout'][:1200]}")
    vs = [v for v in (obs.parse_json_out(r["stdout"]) or []) if v["rule_id"] == "srp.violation"]
    remove(root)
    if "class" in case:
        # rebuild the single-class expectation
        header = next((i + 1 for i, ln in enumerate(case["text"].split("\n")) if re.search(rf"\b(class|struct) {case['class']}\b", ln)), 1)
        _judge(acc, lang, case["text"], [(case["class"], case["methods"], case["loc"], header)], case["srp_config"], [v for v in vs if f"'{case['class']}'" in v["message"]], r)
    return acc.failures
