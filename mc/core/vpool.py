"""Harness-owned executor for Orchestrator.lint_files_parallel (E-sched).

`install()` replaces src.orchestrator.core.ProcessPoolExecutor / as_completed (module attributes,
no source change) by a virtual pool that executes the submitted work items according to an
explicit SCHEDULE:

  blocks   list of lists of item indices: which worker PROCESS handles which items, in which order
  order    the order in which the parent sees the futures complete
  results  optional precomputed per-item results (then nothing is executed: parent side only)

Each block runs in a forked child process (real process isolation, real sharing of module state
between the items of one block, results pickled back through a pipe like the real pool does).
"""

from __future__ import annotations

import os
import pickle
import traceback
from contextlib import contextmanager

SCHEDULE: dict = {}
LOG: dict = {"pools": 0, "submitted": 0, "max_workers": None, "vector": None}


class VFuture:
    def __init__(self, idx, fn, arg):
        self.idx, self.fn, self.arg = idx, fn, arg
        self._result = None
        self._exc = None
        self._done = False

    def result(self, timeout=None):
        if self._exc is not None:
            raise self._exc
        return self._result

    def done(self):
        return self._done


class VirtualPool:
    def __init__(self, max_workers=None, *a, **kw):
        self.max_workers = max_workers
        self.futs: list[VFuture] = []
        LOG["pools"] += 1
        LOG["max_workers"] = max_workers

    def __enter__(self):
        return self

    def __exit__(self, *exc):
        return False

    def submit(self, fn, *args):
        f = VFuture(len(self.futs), fn, args)
        self.futs.append(f)
        LOG["submitted"] += 1
        return f

    def shutdown(self, *a, **kw):
        pass


def _run_block(futs, block):
    """Execute the items of one block sequentially in a forked child; return {idx: (ok, value)}."""
    r, w = os.pipe()
    pid = os.fork()
    if pid == 0:
        os.close(r)
        out = {}
        try:
            for idx in block:
                f = futs[idx]
                try:
                    out[idx] = (True, f.fn(*f.arg))
                except BaseException as e:  # noqa: BLE001
                    out[idx] = (False, f"{type(e).__name__}: {e}\n{traceback.format_exc()[-600:]}")
            data = pickle.dumps(out)
        except BaseException as e:  # noqa: BLE001
            data = pickle.dumps({"__harness__": (False, repr(e))})
        with os.fdopen(w, "wb") as fh:
            fh.write(data)
        os._exit(0)
    os.close(w)
    with os.fdopen(r, "rb") as fh:
        data = fh.read()
    os.waitpid(pid, 0)
    return pickle.loads(data) if data else {"__harness__": (False, "child died without output")}


def v_as_completed(futs, timeout=None):
    futs = list(futs)
    n = len(futs)
    sched = SCHEDULE
    if sched.get("results") is not None:
        res = {i: (True, sched["results"][i]) for i in range(n)}
    else:
        blocks = sched.get("blocks") or [[i] for i in range(n)]
        assert sorted(i for b in blocks for i in b) == list(range(n)), (blocks, n)
        res = {}
        for b in blocks:
            res.update(_run_block(futs, b))
        if "__harness__" in res:
            raise RuntimeError(f"virtual pool child failed: {res['__harness__']}")
    for i, f in enumerate(futs):
        ok, val = res[i]
        if ok:
            f._result = val
        else:
            f._exc = RuntimeError(val)
        f._done = True
    LOG["vector"] = [res[i][1] if res[i][0] else {"__exc__": res[i][1]} for i in range(n)]
    order = sched.get("order") or list(range(n))
    assert sorted(order) == list(range(n)), (order, n)
    for i in order:
        yield futs[i]


@contextmanager
def install(cpu_count: int | None = None):
    import src.orchestrator.core as core  # noqa: PLC0415

    old = (core.ProcessPoolExecutor, core.as_completed, core.multiprocessing.cpu_count)
    core.ProcessPoolExecutor = VirtualPool
    core.as_completed = v_as_completed
    if cpu_count is not None:
        core.multiprocessing.cpu_count = lambda: cpu_count
    LOG.update({"pools": 0, "submitted": 0, "max_workers": None, "vector": None})
    try:
        yield LOG
    finally:
        core.ProcessPoolExecutor, core.as_completed, core.multiprocessing.cpu_count = old
        SCHEDULE.clear()
