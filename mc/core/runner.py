"""Generic explorer driver: shard work items, aggregate, match known findings, write evidence.

A check module (mc/checks/cXX.py) provides
  PROPERTY, LEVEL, RULE, ASSUMPTIONS, MIN_NONTRIVIAL (dict tier->int), BOUND (dict tier->str)
  items(tier, seed) -> list of picklable work items (the complete bounded space, partitioned)
  run_item(item) -> Acc          (executes the real implementation on every case of the item)
  replay_case(case) -> list[dict failures]   (re-executes ONE stored case, no explorer)
"""

from __future__ import annotations

import argparse
import importlib
import json
import os
import sys
import time
import traceback
from concurrent.futures import ProcessPoolExecutor, as_completed
from pathlib import Path

from . import env
from .isolate import canon, sha

# TLV_EVIDENCE_DIR: scratch destination used only when a seeded change is tried in a scratch
# worktree (tools/seed.py detect-wt); registered commands never set it.
EVID = Path(os.environ["TLV_EVIDENCE_DIR"]) if os.environ.get("TLV_EVIDENCE_DIR") else env.VERIF / "evidence"
KNOWN = env.VERIF / "known_findings.jsonl"
MAX_SAMPLES = 6
MAX_FAIL_PER_SIG = 3


class Acc:
    """Accumulator a work item fills in."""

    def __init__(self) -> None:
        self.cases = 0  # distinct cases executed against the implementation (states)
        self.transitions = 0  # edges (relations between cases) whose oracle was evaluated
        self.validated = 0  # cases where model prediction was compared with the implementation
        self.nontrivial: set[str] = set()
        self.failures: list[dict] = []
        self.samples: list = []
        self.stats: dict[str, int] = {}
        self.outcomes: set[str] = set()  # distinct observed outcomes (vacuity indicator)

    def case(self, n: int = 1) -> None:
        self.cases += n

    def edge(self, n: int = 1) -> None:
        self.transitions += n

    def valid(self, n: int = 1) -> None:
        self.validated += n

    def nt(self, key) -> None:
        self.nontrivial.add(sha(key, 16))

    def outcome(self, key) -> None:
        if len(self.outcomes) < 5000:
            self.outcomes.add(sha(key, 10))

    def stat(self, k: str, n: int = 1) -> None:
        self.stats[k] = self.stats.get(k, 0) + n

    def sample(self, s) -> None:
        if len(self.samples) < 2:
            self.samples.append(s)

    def fail(self, signature: dict, case: dict, expected, observed, note: str = "") -> None:
        self.failures.append(
            {
                "signature": signature,
                "case": case,
                "expected": expected,
                "observed": observed,
                "note": note,
            }
        )

    def pack(self) -> dict:
        # keep the transferred failure list bounded per signature
        per: dict[str, int] = {}
        kept = []
        counts: dict[str, int] = {}
        for f in self.failures:
            k = canon(f["signature"])
            counts[k] = counts.get(k, 0) + 1
            if per.get(k, 0) < MAX_FAIL_PER_SIG:
                per[k] = per.get(k, 0) + 1
                kept.append(f)
        return {
            "cases": self.cases,
            "transitions": self.transitions,
            "validated": self.validated,
            "nontrivial": sorted(self.nontrivial),
            "failures": kept,
            "fail_counts": counts,
            "samples": self.samples,
            "stats": self.stats,
            "outcomes": sorted(self.outcomes),
        }


def _digest(packed: dict) -> str:
    # time-limit verdicts ("hang") depend on machine load near the limit: they are reported as
    # violations but are not part of the determinism self-test
    timed = lambda k: '"mode": "hang"' in k  # noqa: E731
    return sha(
        {
            "cases": packed["cases"],
            "transitions": packed["transitions"],
            "validated": packed["validated"],
            "nontrivial": packed["nontrivial"],
            "fails": sorted((k, n) for k, n in packed["fail_counts"].items() if not timed(k)),
            "outcomes": sorted(o for o in packed["outcomes"] if "timeout" not in str(o)),
        },
        16,
    )


_MOD = None


def _init_worker(modname: str) -> None:
    global _MOD  # noqa: PLW0603
    env.bind_repo()
    _MOD = importlib.import_module(modname)
    import logging  # noqa: PLC0415

    logging.getLogger("src").setLevel(logging.CRITICAL + 1)
    os.environ["HOME"] = str(env.scratch_base())


def _work(idx: int, item) -> tuple[int, dict | None, str | None]:
    try:
        acc = _MOD.run_item(item)
        return idx, acc.pack(), None
    except BaseException:  # noqa: BLE001
        return idx, None, traceback.format_exc()


def load_known(prop: str) -> tuple[dict, list]:
    open_, fixed = {}, []
    if KNOWN.exists():
        for ln in KNOWN.read_text().splitlines():
            ln = ln.strip()
            if not ln or ln.startswith("#"):
                continue
            if ln.startswith("fixed:"):
                fixed.append(ln)
                continue
            e = json.loads(ln)
            if e.get("property") != prop:
                continue
            if e.get("status", "open") == "open":
                open_[canon(e["signature"])] = e
            else:
                fixed.append(e)
    return open_, fixed


STALL_SECONDS = int(os.environ.get("TLV_STALL_SECONDS", "5400"))


def _completed_or_stalled(pool, futs, fut_item, items, prop):
    """as_completed with a watchdog: when no work item finishes for STALL_SECONDS the explorer
    itself is stuck (e.g. the implementation hangs inside a work item that has no time-out of
    its own).  That is reported as a harness error naming the unfinished items - never silently
    waited out - and the worker processes are killed."""
    from concurrent.futures import FIRST_COMPLETED, wait  # noqa: PLC0415

    pending = set(futs)
    while pending:
        done, pending = wait(pending, timeout=STALL_SECONDS, return_when=FIRST_COMPLETED)
        if not done:
            stuck = [json.dumps(items[fut_item[f]], default=str)[:200] for f in pending if f.running()][:5]
            print(f"HARNESS-ERROR property={prop}: no work item finished within {STALL_SECONDS} s; still running: {stuck}")
            for proc in list(getattr(pool, "_processes", {}).values()):
                proc.kill()
            sys.stdout.flush()
            os._exit(3)
        yield from done


def run(prop: str, tier: str, jobs: int, dump_known: bool = False) -> int:
    t0 = time.time()
    env.bind_repo()
    modname = f"mc.checks.{prop.lower()}"
    mod = importlib.import_module(modname)
    seed = env.seed()
    items = list(mod.items(tier, seed))
    # VERIF_SEED permutes the processing order only; the space is always enumerated completely
    import random  # noqa: PLC0415

    order = list(range(len(items)))
    random.Random(seed).shuffle(order)
    selftest_n = min(getattr(mod, "SELFTEST_N", 6), len(items))
    selftest_idx = order[:selftest_n]

    agg = Acc()
    agg_fail_counts: dict[str, int] = {}
    digests: dict[int, str] = {}
    errors: list[str] = []
    nondet: list[int] = []
    with ProcessPoolExecutor(
        max_workers=jobs, initializer=_init_worker, initargs=(modname,)
    ) as pool:
        futs = [pool.submit(_work, i, items[i]) for i in order]
        # determinism self-test: the same items again, submitted last (land on other workers)
        futs2 = [pool.submit(_work, -1 - i, items[i]) for i in reversed(selftest_idx)]
        fut_item = {f: i for f, i in zip(futs, order)}
        fut_item.update({f: i for f, i in zip(futs2, reversed(selftest_idx))})
        for fut in _completed_or_stalled(pool, futs + futs2, fut_item, items, prop):
            idx, packed, err = fut.result()
            if err:
                errors.append(err)
                continue
            if idx < 0:
                real = -1 - idx
                d = _digest(packed)
                if real in digests and digests[real] != d:
                    nondet.append(real)
                digests.setdefault(real, d)
                continue
            d = _digest(packed)
            if idx in digests and digests[idx] != d:
                nondet.append(idx)
            digests.setdefault(idx, d)
            agg.cases += packed["cases"]
            agg.transitions += packed["transitions"]
            agg.validated += packed["validated"]
            agg.nontrivial.update(packed["nontrivial"])
            agg.outcomes.update(packed["outcomes"])
            agg.failures.extend(packed["failures"])
            for k, n in packed["fail_counts"].items():
                agg_fail_counts[k] = agg_fail_counts.get(k, 0) + n
            for k, n in packed["stats"].items():
                agg.stats[k] = agg.stats.get(k, 0) + n
            if len(agg.samples) < MAX_SAMPLES:
                agg.samples.extend(packed["samples"][: MAX_SAMPLES - len(agg.samples)])
    env.cleanup_scratch_root()

    if errors:
        print(f"HARNESS-ERROR property={prop}: {len(errors)} work item(s) raised in the harness")
        print(errors[0])
        return 3
    # group failures by signature
    by_sig: dict[str, list[dict]] = {}
    for f in agg.failures:
        by_sig.setdefault(canon(f["signature"]), []).append(f)
    known_open, _fixed = load_known(prop)
    unmatched = {k: v for k, v in by_sig.items() if k not in known_open}
    if nondet and not unmatched:
        # the same work item gave two different results and nothing else is wrong: the harness
        # does not own some source of nondeterminism - nothing this run says can be trusted
        print(f"HARNESS-ERROR property={prop}: NONDETERMINISTIC work items {sorted(set(nondet))[:5]}")
        return 3
    if nondet:
        # with violations on the table a repeated item that differs is one more symptom (state
        # that survives between lint runs makes results depend on what a worker did before)
        print(f"NOTE property={prop}: work items {sorted(set(nondet))[:5]} gave different results when repeated in this run (results depend on process history); the violations below were observed on real runs")
    matched = {k: v for k, v in by_sig.items() if k in known_open}

    replay_dir = EVID / "replays"
    if replay_dir.exists():
        for old in replay_dir.glob(f"{prop}-*.json"):
            old.unlink()
    lines = []
    for k in sorted(matched):
        e = known_open[k]
        lines.append(f"KNOWN-FINDING: property={prop} {e.get('what', k)}")
    for k in sorted(known_open):
        if k not in by_sig:
            lines.append(f"STALE-KNOWN-FINDING: property={prop} {known_open[k].get('what', k)} (not observed in this run)")
    nvio = 0
    for k in sorted(unmatched):
        f = sorted(unmatched[k], key=lambda x: len(canon(x["case"])))[0]
        replay_dir.mkdir(parents=True, exist_ok=True)
        rp = replay_dir / f"{prop}-{sha(f['signature'])}.json"
        rp.write_text(json.dumps({"property": prop, **f}, indent=1, default=str))
        nvio += 1
        lines.append(f"VIOLATION property={prop} replay={rp}")
        lines.append(f"  signature={k} count={agg_fail_counts.get(k)} note={f.get('note', '')[:300]}")
    if dump_known:
        fd = env.VERIF / "findings" / "replays"
        fd.mkdir(parents=True, exist_ok=True)
        for k in sorted(by_sig):
            f = sorted(by_sig[k], key=lambda x: len(canon(x["case"])))[0]
            (fd / f"{prop}-{sha(f['signature'])}.json").write_text(
                json.dumps({"property": prop, **f}, indent=1, default=str)
            )

    floor = getattr(mod, "MIN_NONTRIVIAL", {}).get(tier, 2)
    vacuous = len(agg.nontrivial) < floor
    wall = time.time() - t0
    bound = getattr(mod, "BOUND", {}).get(tier, "")
    coverage = {
        "states": agg.cases,
        "transitions": agg.transitions,
        "traces_validated_against_impl": agg.validated,
        "evaluations": agg.cases,
        "distinct_nontrivial": len(agg.nontrivial),
        "distinct_observed_outcomes": len(agg.outcomes),
        "rule": getattr(mod, "RULE", ""),
        "bound": bound,
        "exhaustive": bool(getattr(mod, "EXHAUSTIVE", True)),
        "work_items": len(items),
        "selftest_items_replayed": selftest_n,
        "stats": dict(sorted(agg.stats.items())),
        "failure_signatures": {
            "known": len(matched),
            "unlisted": len(unmatched),
        },
        "samples": agg.samples[:MAX_SAMPLES] or ["<none>"],
    }
    ev = {
        "property_id": prop,
        "tier": tier,
        "seed": seed,
        "level": getattr(mod, "LEVEL", "model_checking"),
        "coverage": coverage,
        "assumptions": list(getattr(mod, "ASSUMPTIONS", [])),
        "wall_s": round(wall, 2),
        "violations": nvio,
        "known_findings_reported": len(matched),
        "repo": str(env.REPO),
    }
    EVID.mkdir(parents=True, exist_ok=True)
    (EVID / f"{prop}.json").write_text(json.dumps(ev, indent=1, default=str) + "\n")

    print(
        f"{prop} tier={tier} seed={seed} states={agg.cases} transitions={agg.transitions} "
        f"validated={agg.validated} nontrivial={len(agg.nontrivial)} outcomes={len(agg.outcomes)} "
        f"signatures(known/unlisted)={len(matched)}/{len(unmatched)} wall={wall:.1f}s"
    )
    for ln in lines:
        print(ln)
    if vacuous:
        print(f"HARNESS-ERROR property={prop}: vacuous run, distinct_nontrivial={len(agg.nontrivial)} < {floor}")
        return 3
    return 1 if nvio else 0


def replay(prop: str, path: str) -> int:
    env.bind_repo()
    mod = importlib.import_module(f"mc.checks.{prop.lower()}")
    _init_worker(f"mc.checks.{prop.lower()}")
    doc = json.loads(Path(path).read_text())
    fails = mod.replay_case(doc["case"])
    env.cleanup_scratch_root()
    print(f"replay {path}: recorded signature {canon(doc.get('signature'))}")
    if not fails:
        print("replay: property holds on this case now")
        return 0
    for f in fails:
        print(f"VIOLATION property={prop} replay={path}")
        print(f"  signature={canon(f['signature'])}")
        print(f"  expected={json.dumps(f['expected'], default=str)[:2000]}")
        print(f"  observed={json.dumps(f['observed'], default=str)[:2000]}")
        if f.get("note"):
            print(f"  note={f['note']}")
    return 1


def main(argv=None) -> int:
    ap = argparse.ArgumentParser(prog="check")
    ap.add_argument("prop")
    ap.add_argument("--tier", default=os.environ.get("VERIF_TIER", "quick"), choices=["quick", "thorough"])
    ap.add_argument("--replay")
    ap.add_argument("--jobs", type=int, default=int(os.environ.get("TLV_JOBS", "16")))
    ap.add_argument("--dump-known", action="store_true")
    a = ap.parse_args(argv)
    prop = a.prop.upper()
    if a.replay:
        return replay(prop, a.replay)
    return run(prop, a.tier, a.jobs, a.dump_known)


if __name__ == "__main__":
    sys.exit(main())
