"""Observation front-ends: run the real implementation and return a normalised record.

Three front-ends (DESIGN 2.2):
  api            Orchestrator / Linter in-process
  cli_inproc     click CliRunner on the real command group, in-process
  cli_subprocess the installed console entry point in a fresh interpreter

All return violations as dicts {rule_id,file,line,column,message,severity[,suggestion]} where
`file` is left as the implementation printed it; use `relfile` to normalise against a root.
"""

from __future__ import annotations

import json
import logging
import os
import subprocess
from contextlib import contextmanager
from pathlib import Path

from . import env


class SwallowTap(logging.Handler):
    """Collects logger.exception() records of the orchestrator (swallowed rule failures)."""

    def __init__(self) -> None:
        super().__init__(level=logging.ERROR)
        self.records: list[str] = []

    def emit(self, record: logging.LogRecord) -> None:
        try:
            msg = record.getMessage()
        except Exception:  # noqa: BLE001
            msg = str(record.msg)
        et = record.exc_info[0].__name__ if record.exc_info and record.exc_info[0] else ""
        self.records.append(f"{msg} [{et}]")


@contextmanager
def swallow_tap():
    lg = logging.getLogger("src.orchestrator.core")
    tap = SwallowTap()
    old_prop, old_level = lg.propagate, lg.level
    lg.addHandler(tap)
    lg.propagate = False
    # the workers silence the "src" logger tree; this logger must stay enabled for ERROR or its
    # records are dropped before any handler (the tap included) sees them
    lg.setLevel(logging.ERROR)
    try:
        yield tap
    finally:
        lg.removeHandler(tap)
        lg.propagate = old_prop
        lg.setLevel(old_level)


@contextmanager
def cwd(path: Path | str):
    old = os.getcwd()
    os.chdir(path)
    try:
        yield
    finally:
        os.chdir(old)


def vdict(v, full: bool = False) -> dict:
    d = {
        "rule_id": v.rule_id,
        "file": str(v.file_path),
        "line": v.line,
        "column": v.column,
        "message": v.message,
        "severity": v.severity.name if hasattr(v.severity, "name") else str(v.severity),
    }
    if full:
        d["suggestion"] = getattr(v, "suggestion", None)
    return d


def relfile(f: str, root: Path | str, cwd_: Path | str | None = None) -> str:
    """Project-relative POSIX spelling of a reported file path."""
    p = Path(f)
    if not p.is_absolute():
        q = Path(cwd_ or root) / p
        # file-placement names files by their project-relative path whatever the working directory
        if cwd_ is not None and not os.path.lexists(q) and os.path.lexists(Path(root) / p):
            q = Path(root) / p
        p = q
    p = Path(os.path.normpath(str(p)))
    root = Path(os.path.normpath(str(root)))
    try:
        return p.relative_to(root).as_posix()
    except ValueError:
        try:
            return p.resolve().relative_to(root.resolve()).as_posix()
        except ValueError:
            return p.as_posix()


def norm(viols: list[dict], root: Path | str, cwd_: Path | str | None = None, fields=None) -> list:
    """Sorted multiset of violations with files made project-relative."""
    fields = fields or ("rule_id", "file", "line", "column", "message")
    out = []
    for v in viols:
        w = dict(v)
        w["file"] = relfile(v["file"], root, cwd_)
        out.append(tuple(w.get(k) for k in fields))
    return sorted(out, key=lambda t: tuple(str(x) for x in t))


# --------------------------------------------------------------------------- api


def api_orchestrator(root: Path, config: dict | None = None):
    from src.orchestrator.core import Orchestrator  # noqa: PLC0415

    env.reset_caches()
    return Orchestrator(project_root=root, config=config)


def api_lint_files(root: Path, files: list[Path], config: dict | None = None, full=False) -> dict:
    """Fresh Orchestrator.lint_files (with finalize)."""
    with swallow_tap() as tap:
        orch = api_orchestrator(root, config)
        try:
            vs = orch.lint_files(files)
            exc = None
        except Exception as e:  # noqa: BLE001
            vs, exc = [], f"{type(e).__name__}: {e}"
    return {"violations": [vdict(v, full) for v in vs], "swallowed": tap.records, "exception": exc}


def api_lint_file(root: Path, file: Path, config: dict | None = None, full=False) -> dict:
    with swallow_tap() as tap:
        orch = api_orchestrator(root, config)
        try:
            vs = orch.lint_file(file)
            exc = None
        except Exception as e:  # noqa: BLE001
            vs, exc = [], f"{type(e).__name__}: {e}"
    return {"violations": [vdict(v, full) for v in vs], "swallowed": tap.records, "exception": exc}


# --------------------------------------------------------------------------- cli in-process

_CLI = None


def _cli():
    global _CLI  # noqa: PLW0603
    if _CLI is None:
        from src.cli_main import cli  # noqa: PLC0415

        _CLI = cli
    return _CLI


def cli_inproc(argv: list[str], cwd_: Path | str, environ: dict | None = None) -> dict:
    """Invoke the real click group in-process. Returns exit_code/stdout/stderr/swallowed."""
    from click.testing import CliRunner  # noqa: PLC0415

    env.reset_caches()
    runner = CliRunner()
    with cwd(cwd_), swallow_tap() as tap:
        res = runner.invoke(_cli(), argv, env=environ or {}, catch_exceptions=True)
    exc = None
    if res.exception is not None and not isinstance(res.exception, SystemExit):
        exc = f"{type(res.exception).__name__}: {res.exception}"
    try:
        stderr = res.stderr
    except ValueError:
        stderr = ""
    return {
        "exit_code": res.exit_code,
        "stdout": res.stdout,
        "stderr": stderr,
        "swallowed": tap.records,
        "exception": exc,
    }


def parse_json_out(stdout: str) -> list[dict] | None:
    """Violations of a --format json run, or None if stdout is not the documented JSON."""
    try:
        doc = json.loads(stdout)
    except (ValueError, TypeError):
        return None
    if not isinstance(doc, dict) or "violations" not in doc:
        return None
    out = []
    for v in doc["violations"]:
        out.append(
            {
                "rule_id": v.get("rule_id"),
                "file": v.get("file_path"),
                "line": v.get("line"),
                "column": v.get("column"),
                "message": v.get("message"),
                "severity": v.get("severity"),
            }
        )
    return out


def cli_json(argv: list[str], cwd_: Path | str, sub: bool = False, **kw) -> dict:
    """Run a linter command with --format json through cli_inproc or cli_subprocess."""
    a = list(argv)
    if "--format" not in a and "-f" not in a:
        a += ["--format", "json"]
    r = cli_subprocess(a, cwd_, **kw) if sub else cli_inproc(a, cwd_, **kw)
    r["violations"] = parse_json_out(r["stdout"]) if r["exit_code"] in (0, 1) else None
    return r


# --------------------------------------------------------------------------- cli subprocess


def cli_subprocess(
    argv: list[str],
    cwd_: Path | str,
    environ: dict | None = None,
    timeout: float = 120.0,
    home: Path | None = None,
) -> dict:
    """Run the console entry point (same code as /venv/bin/thailint) in a fresh interpreter.

    -P keeps the scratch project's own `src/` directory off sys.path[0]; the implementation is
    found through PYTHONPATH=$TLV_REPO (and the .pth entry for /repo).
    """
    cmd = [env.PY, "-P", "-c", "import sys; from src.cli_main import cli; sys.exit(cli())", *argv]
    e = env.child_env(environ, home=home)
    try:
        p = subprocess.run(  # noqa: S603
            cmd, cwd=str(cwd_), env=e, capture_output=True, timeout=timeout, check=False
        )
    except subprocess.TimeoutExpired:
        return {"exit_code": None, "stdout": "", "stderr": "", "timeout": True, "swallowed": []}
    out = p.stdout.decode("utf-8", errors="surrogateescape")
    err = p.stderr.decode("utf-8", errors="surrogateescape")
    swallowed = [
        ln
        for ln in err.splitlines()
        if " failed on " in ln or "Worker error processing file" in ln or "Error extracting" in ln
    ]
    return {
        "exit_code": p.returncode,
        "stdout": out,
        "stderr": err,
        "stdout_bytes": p.stdout,
        "swallowed": swallowed,
        "timeout": False,
    }


# --------------------------------------------------------------------------- api subprocess

_API_SCRIPT = r"""
import json, sys, os, logging
from pathlib import Path
logging.getLogger("src").setLevel(logging.CRITICAL + 1)
req = json.loads(sys.stdin.read())
from src.orchestrator.core import Orchestrator
root = Path(req["root"])
os.chdir(root)
out = []
for paths in req["runs"]:
    o = Orchestrator(project_root=root, config=req["config"])
    vs = o.lint_files([root / p for p in paths])
    out.append([{"rule_id": v.rule_id, "file": str(v.file_path), "line": v.line, "column": v.column, "message": v.message} for v in vs])
print(json.dumps(out))
"""


def api_subprocess(root: Path, config: dict | None, runs: list[list[str]], one_process: bool = False, timeout: float = 300.0) -> list:
    """Orchestrator(project_root=root, config=config).lint_files(paths) for every path list of
    `runs`, each in its OWN fresh interpreter (one_process=False) or all consecutively in one fresh
    interpreter.  Returns one list of violation dicts per run (None if the process failed)."""
    import json  # noqa: PLC0415

    def spawn(batch):
        p = subprocess.run(  # noqa: S603
            [env.PY, "-P", "-c", _API_SCRIPT], cwd=str(root), env=env.child_env(None), capture_output=True, timeout=timeout, check=False,
            input=json.dumps({"root": str(root), "config": config, "runs": batch}).encode(),
        )
        try:
            return json.loads(p.stdout.decode("utf-8", errors="surrogateescape"))
        except ValueError:
            return [None] * len(batch)

    if one_process:
        return spawn(runs)
    return [spawn([r])[0] for r in runs]
