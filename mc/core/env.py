"""Process-level environment: which tree is under test, where scratch lives, cache resets.

The implementation under test is imported from $TLV_REPO (default /repo).  Nothing is cached
between runs, so every run reflects the current working tree of that directory.
"""

from __future__ import annotations

import atexit
import os
import shutil
import sys
from pathlib import Path

VERIF = Path(__file__).resolve().parents[2]
REPO = Path(os.environ.get("TLV_REPO", "/repo")).resolve()
PY = "/venv/bin/python"

_SCRATCH_BASE: Path | None = None
_COUNTER = [0]


def bind_repo() -> None:
    """Make `import src` resolve to $TLV_REPO and assert that it does."""
    p = str(REPO)
    if sys.path[0] != p:
        sys.path.insert(0, p)
    import src  # noqa: PLC0415

    got = Path(src.__file__).resolve()
    if REPO not in got.parents:
        raise SystemExit(f"HARNESS-ERROR: src imported from {got}, expected under {REPO}")


def seed() -> int:
    try:
        return int(os.environ.get("VERIF_SEED", "0"))
    except ValueError:
        return 0


def scratch_base() -> Path:
    """Per-process scratch directory (digits only in its name: no accidental `test`/`build`)."""
    global _SCRATCH_BASE  # noqa: PLW0603
    if _SCRATCH_BASE is None or not _SCRATCH_BASE.exists() or _SCRATCH_BASE.name != f"w{os.getpid()}":
        root = Path(os.environ.get("TLV_SCRATCH", "/tmp/tlv"))
        base = root / f"w{os.getpid()}"
        if base.exists():
            shutil.rmtree(base, ignore_errors=True)
        base.mkdir(parents=True, exist_ok=True)
        _SCRATCH_BASE = base
        atexit.register(shutil.rmtree, str(base), True)
    return _SCRATCH_BASE


def fresh_dir(tag: str = "p") -> Path:
    """A new empty directory under the scratch base."""
    _COUNTER[0] += 1
    d = scratch_base() / f"{tag}{_COUNTER[0]}"
    if d.exists():
        shutil.rmtree(d)
    d.mkdir(parents=True)
    return d


def cleanup_scratch_root() -> None:
    """Remove the whole scratch root if empty-ish (called by the parent at the end)."""
    root = Path(os.environ.get("TLV_SCRATCH", "/tmp/tlv"))
    base = root / f"w{os.getpid()}"
    shutil.rmtree(base, ignore_errors=True)
    try:
        root.rmdir()
    except OSError:
        pass


def reset_caches() -> None:
    """Reset the one module-level singleton of the implementation (ignore parser)."""
    from src.linter_config.ignore import clear_ignore_parser_cache  # noqa: PLC0415

    clear_ignore_parser_cache()


def child_env(extra: dict | None = None, home: Path | None = None) -> dict:
    """Environment for cli-subprocess runs."""
    env = {
        "PATH": "/venv/bin:/usr/local/bin:/usr/bin:/bin",
        "PYTHONHASHSEED": "0",
        "PYTHONDONTWRITEBYTECODE": "1",
        "PYTHONPATH": str(REPO),
        "LANG": "C.UTF-8",
        "LC_ALL": "C.UTF-8",
        "PYTHONIOENCODING": "utf-8",
        "NO_COLOR": "1",
    }
    if os.environ.get("THAILINT_VERIF"):
        env["THAILINT_VERIF"] = os.environ["THAILINT_VERIF"]
    if home is not None:
        env["HOME"] = str(home)
    if extra:
        env.update(extra)
    return env
