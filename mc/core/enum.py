"""Canonical index-free generators used by several checks (all deterministic, complete)."""

from __future__ import annotations

import itertools


def forests(n: int, kinds):
    """All ordered forests with exactly n nodes, each node labelled from kinds.

    A forest is a tuple of trees; a tree is (kind, forest).  Count = Catalan(n) * len(kinds)**n.
    """
    if n == 0:
        yield ()
        return
    # first tree has k nodes (1..n): root + forest of k-1 nodes; rest is a forest of n-k nodes
    for k in range(1, n + 1):
        for sub in forests(k - 1, kinds):
            for rest in forests(n - k, kinds):
                for kind in kinds:
                    yield ((kind, sub),) + rest


def forest_depth(f) -> int:
    """Max number of nodes on a root-to-leaf path (0 for the empty forest)."""
    return max((1 + forest_depth(sub) for _k, sub in f), default=0)


def forest_size(f) -> int:
    return sum(1 + forest_size(sub) for _k, sub in f)


def chunks(it, n: int):
    it = iter(it)
    while True:
        block = list(itertools.islice(it, n))
        if not block:
            return
        yield block


def set_partitions_ordered_blocks(items, max_blocks: int):
    """All arrangements of items into <= max_blocks non-empty *ordered* blocks (unordered set of
    blocks): which worker handles which items in which order."""
    items = list(items)
    if not items:
        yield []
        return

    def rec(i, blocks):
        if i == len(items):
            yield [list(b) for b in blocks]
            return
        x = items[i]
        # insert x at any position of any existing block
        for b in range(len(blocks)):
            for pos in range(len(blocks[b]) + 1):
                blocks[b].insert(pos, x)
                yield from rec(i + 1, blocks)
                blocks[b].pop(pos)
        if len(blocks) < max_blocks:
            blocks.append([x])
            yield from rec(i + 1, blocks)
            blocks.pop()

    yield from rec(0, [])


def linear_extensions(blocks):
    """All interleavings of the ordered blocks (completion orders consistent with block order)."""
    blocks = [list(b) for b in blocks if b]

    def rec(pos):
        if all(pos[i] == len(blocks[i]) for i in range(len(blocks))):
            yield []
            return
        for i in range(len(blocks)):
            if pos[i] < len(blocks[i]):
                x = blocks[i][pos[i]]
                pos[i] += 1
                for rest in rec(pos):
                    yield [x] + rest
                pos[i] -= 1

    yield from rec([0] * len(blocks))


def k_deviation_orders(n: int, k: int):
    """All permutations of range(n) reachable from identity by <= k adjacent transpositions."""
    seen = {tuple(range(n))}
    frontier = [tuple(range(n))]
    for _ in range(k):
        nxt = []
        for p in frontier:
            for i in range(n - 1):
                q = list(p)
                q[i], q[i + 1] = q[i + 1], q[i]
                q = tuple(q)
                if q not in seen:
                    seen.add(q)
                    nxt.append(q)
        frontier = nxt
    return sorted(seen)
