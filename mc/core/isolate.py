"""Scratch project builder."""

from __future__ import annotations

import base64
import hashlib
import json
import os
import shutil
from pathlib import Path

from . import env


def write_tree(root: Path, files: dict, marker: bool = True) -> Path:
    """Write {relative path: str|bytes} under root; add an empty .git dir as project marker."""
    root.mkdir(parents=True, exist_ok=True)
    if marker:
        (root / ".git").mkdir(exist_ok=True)
    for rel, content in files.items():
        p = root / rel
        p.parent.mkdir(parents=True, exist_ok=True)
        if isinstance(content, bytes):
            p.write_bytes(content)
        else:
            p.write_bytes(content.encode("utf-8", errors="surrogateescape"))
    return root


def project(files: dict, name: str = "proj", parent: Path | None = None, marker: bool = True) -> Path:
    """Fresh scratch project; returns its root."""
    base = parent if parent is not None else env.fresh_dir("c")
    root = base / name
    return write_tree(root, files, marker)


def remove(p: Path) -> None:
    # the project is <fresh_dir>/<name>; remove the fresh_dir when it is ours
    base = env.scratch_base()
    q = p
    while q.parent != base and q.parent != q:
        q = q.parent
    shutil.rmtree(q if q.parent == base else p, ignore_errors=True)


def yaml_dump(d: dict) -> str:
    import yaml  # noqa: PLC0415

    return yaml.safe_dump(d, sort_keys=False, default_flow_style=False)


def files_to_json(files: dict) -> dict:
    out = {}
    for k, v in files.items():
        b = v if isinstance(v, bytes) else v.encode("utf-8", errors="surrogateescape")
        try:
            out[k] = {"text": b.decode("utf-8")}
        except UnicodeDecodeError:
            out[k] = {"b64": base64.b64encode(b).decode()}
    return out


def files_from_json(d: dict) -> dict:
    out = {}
    for k, v in d.items():
        out[k] = v["text"] if "text" in v else base64.b64decode(v["b64"])
    return out


def snapshot(root: Path) -> dict:
    """{relative path: (kind, sha1, mtime_ns)} of everything under root."""
    snap = {}
    for dp, dns, fns in os.walk(root):
        for n in dns:
            p = Path(dp) / n
            snap[str(p.relative_to(root)) + "/"] = ("dir", "", 0)
        for n in fns:
            p = Path(dp) / n
            try:
                h = hashlib.sha1(p.read_bytes()).hexdigest()  # noqa: S324
                m = p.stat().st_mtime_ns
            except OSError:
                h, m = "?", 0
            snap[str(p.relative_to(root))] = ("file", h, m)
    return snap


def canon(obj) -> str:
    return json.dumps(obj, sort_keys=True, ensure_ascii=True, default=str)


def sha(obj, n: int = 12) -> str:
    return hashlib.sha1(canon(obj).encode()).hexdigest()[:n]  # noqa: S324
