"""Loader for the documentation-derived linter catalog (mc/catalog/linters/*.json, see SPEC.md)."""

from __future__ import annotations

import copy
import functools
import json
from pathlib import Path

DIR = Path(__file__).resolve().parent / "linters"
LANG_EXT = {"python": ".py", "typescript": ".ts", "javascript": ".js", "rust": ".rs"}

# rule-id prefix each CLI command is documented to report (cli-reference / linter docs)
COMMAND_PREFIX = {
    "nesting": ["nesting"],
    "magic-numbers": ["magic-numbers"],
    "dry": ["dry"],
    "srp": ["srp"],
    "file-placement": ["file-placement"],
    "improper-logging": ["improper-logging"],
    "print-statements": ["improper-logging"],
    "method-property": ["method-property"],
    "stateless-class": ["stateless-class"],
    "pipeline": ["collection-pipeline"],
    "lbyl": ["lbyl"],
    "perf": ["performance"],
    "string-concat-loop": ["performance.string-concat-loop"],
    "regex-in-loop": ["performance.regex-in-loop"],
    "lazy-ignores": ["lazy-ignores"],
    "file-header": ["file-header"],
    "stringly-typed": ["stringly-typed"],
    "unwrap-abuse": ["unwrap-abuse"],
    "clone-abuse": ["clone-abuse"],
    "blocking-async": ["blocking-async"],
}
ALL_COMMANDS = list(COMMAND_PREFIX)


@functools.cache
def linters() -> dict:
    out = {}
    for p in sorted(DIR.glob("*.json")):
        d = json.loads(p.read_text())
        d["_file"] = p.name
        out[p.stem] = d
    return out


def primary_command(name: str) -> str | None:
    cmds = linters()[name].get("commands") or []
    return cmds[0] if cmds else None


def prefix(name: str) -> str:
    d = linters()[name]
    cmd = primary_command(name)
    if cmd and cmd in COMMAND_PREFIX:
        return COMMAND_PREFIX[cmd][0]
    return d.get("rule_prefix") or name


def deep_merge(a: dict, b: dict) -> dict:
    out = copy.deepcopy(a)
    for k, v in (b or {}).items():
        if isinstance(v, dict) and isinstance(out.get(k), dict):
            out[k] = deep_merge(out[k], v)
        else:
            out[k] = copy.deepcopy(v)
    return out


def trigger_files(name: str, lang: str, which: str = "trigger") -> dict | None:
    """{relative path: code} of the documented violating example, or None."""
    d = linters()[name]
    L = (d.get("languages") or {}).get(lang)
    if not L:
        return None
    t = L.get(which)
    if not t:
        return None
    if t.get("files"):
        fs = t["files"]
        if isinstance(fs, dict):
            return {k: (v if isinstance(v, str) else v.get("code", "")) for k, v in fs.items()}
        if isinstance(fs, list):
            return {f["filename"] if "filename" in f else f["name"]: f["code"] for f in fs}
    if t.get("code") is None or not t.get("filename"):
        return None
    return {t["filename"]: t["code"]}


def trigger_config(name: str, lang: str, which: str = "trigger") -> dict:
    d = linters()[name]
    cfg = copy.deepcopy(d.get("needs_config") or {})
    t = ((d.get("languages") or {}).get(lang) or {}).get(which) or {}
    if isinstance(t.get("config"), dict):
        cfg = deep_merge(cfg, t["config"])
    return cfg


def trigger_fired_at_catalog_time(name: str, lang: str, which: str = "trigger") -> bool:
    t = ((linters()[name].get("languages") or {}).get(lang) or {}).get(which) or {}
    return bool(t.get("observed"))


def all_triggers(langs=("python", "typescript", "javascript", "rust"), skip=("file-placement",)):
    """[(linter, lang, files, config)] for every catalog trigger that has code."""
    out = []
    for name, d in linters().items():
        if name in skip:
            continue
        for lang in (d.get("languages") or {}):
            if lang not in langs:
                continue
            fs = trigger_files(name, lang)
            if fs:
                out.append((name, lang, fs, trigger_config(name, lang)))
    return out


def zoo_project(langs=("python", "typescript", "javascript", "rust"), skip=("file-placement",), only=None):
    """One multi-language project holding every catalog trigger in its own directory.

    Returns (files, config, index) where index[(linter, lang)] = list of relative paths."""
    files, cfg, index = {}, {}, {}
    for name, lang, fs, c in all_triggers(langs, skip):
        if only and name not in only:
            continue
        sub = f"z_{name.replace('-', '_')}_{lang[:2]}"
        paths = []
        for rel, code in fs.items():
            p = f"{sub}/{rel}"
            files[p] = code
            paths.append(p)
        index[(name, lang)] = paths
        cfg = deep_merge(cfg, c)
    return files, cfg, index
