import sys

from mc.core.runner import main

sys.exit(main())
